#!/bin/bash
# MANIFEST.setup_cmd: offline; warms the Go build cache for the harness and the code under test.
# Nothing built here is used by the checks (each check rebuilds from /repo's working tree).
cd "$(dirname "$0")" || exit 1
export GOFLAGS=-mod=mod GOPROXY=off
unset GOTOOLCHAIN GOSUMDB GOWORK
/usr/bin/python3 -c 'import yaml, tomllib, json' || { echo "python3 with PyYAML/tomllib missing"; exit 1; }
T=$(mktemp -d)
trap 'rm -rf "$T"' EXIT
cp -r harness/go "$T/hgo" && cp /repo/go.sum "$T/hgo/go.sum" || exit 1
(cd "$T/hgo" && go build -tags verif -o "$T/worker" ./cmd/worker && go build -o "$T/spy" ./cmd/spy && go build -race -tags verif -o "$T/worker-race" ./cmd/worker) || exit 1
(cd /repo && go build -tags verif -o "$T/bin/" ./cmd/...) || exit 1
echo "setup ok"
