#!/bin/bash
# tools/confirm_mutant.sh <Cnn> <mk> : confirm a sub-agent's seeded change in its scratch worktree (/tmp/mut/Cnn), at /repo's current HEAD:
#  with the patch: builds, pinned go suite passes, shell tests pass, demonstration FAILS; without it: demonstration PASSES.
# On success copies patch/demo/README to /verif/seeded/<Cnn>-<mk>/ and writes meta.json.
W=$1; SLOT=$2; C=$3; M=$4; O=$W/out/$SLOT
export GOFLAGS=-mod=mod GOPROXY=off; unset GOTOOLCHAIN GOSUMDB
[ -f $O/patch.diff ] || { echo "$C $M: no patch"; exit 2; }
cd $W || exit 2
[ -f out/go.mod ] || echo "module out" > out/go.mod
git checkout -q --detach $(git -C /repo rev-parse HEAD) 2>/dev/null; git reset -q --hard; 
PATCH=$O/patch.diff
[ -f /verif/seeded/$C-$M/patch.diff ] && PATCH=/verif/seeded/$C-$M/patch.diff   # ported version takes precedence
demo() {
  if [ -f $O/demo.sh ]; then (cd $W && timeout 600 bash $O/demo.sh) >$O/demo.log 2>&1; return $?; fi
  if [ -f $O/demo_test.go ]; then
    cp $O/demo_test.go $W/zz_demo_test.go
    names=$(grep -o '^func Test[A-Za-z0-9_]*' $O/demo_test.go | sed 's/func //' | paste -sd'|')
    (cd $W && timeout 600 go test -vet=off -count=1 -run "^($names)\$" .) >$O/demo.log 2>&1; rc=$?
    rm -f $W/zz_demo_test.go; return $rc
  fi
  return 99
}
demo; base=$?
git apply $PATCH 2>/dev/null || git apply --3way $PATCH 2>/dev/null || { echo "$C $M: patch does not apply at HEAD"; git reset -q --hard; exit 3; }
git reset -q   # unstage
build=ok; go build ./... >/dev/null 2>&1 || build=FAIL
gosuite=ok; go test -vet=off -count=1 . ./cmd/... ./wrapper/... >$O/gosuite.log 2>&1 || gosuite=FAIL
shsuite=ok; ./test >$O/shsuite.log 2>&1 || shsuite=FAIL
demo; mut=$?
git checkout -q -- . ; git clean -fdq -e out
echo "$C $M: build=$build gosuite=$gosuite shsuite=$shsuite demo_without=$base demo_with=$mut"
if [ $build = ok ] && [ $gosuite = ok ] && [ $shsuite = ok ] && [ $base = 0 ] && [ $mut != 0 ]; then
  D=/verif/seeded/$C-$M; mkdir -p $D
  [ -f $D/patch.diff ] || cp $O/patch.diff $D/patch.diff
  for f in demo.sh demo_test.go README.txt; do [ -f $O/$f ] && cp $O/$f $D/$f; done
  [ -f $D/demo_test.go ] && mv $D/demo_test.go $D/demo_test.go.txt
  python3 - "$C" "$M" "$D" <<'PY'
import json,sys,os,subprocess
C,M,D=sys.argv[1:4]
readme=open(D+'/README.txt').read() if os.path.exists(D+'/README.txt') else ''
meta={'property':C,'id':C+'-'+M,'source':'independent sub-agent given only the property text and a scratch worktree',
 'repo_head':subprocess.run(['git','-C','/repo','rev-parse','HEAD'],stdout=subprocess.PIPE,text=True).stdout.strip(),
 'confirmed':{'builds':True,'pinned_go_suite_passes_with_change':True,'shell_tests_pass_with_change':True,'demo_passes_without_change':True,'demo_fails_with_change':True,
   'how':'tools/confirm_mutant2.sh (round 2, scratch worktree under /tmp/mut, removed afterwards)'},
 'needs_to_manifest':'see README.txt', 'detected_by':None}
old=D+'/meta.json'
if os.path.exists(old):
    o=json.load(open(old)); meta['detected_by']=o.get('detected_by'); meta['needs_to_manifest']=o.get('needs_to_manifest',meta['needs_to_manifest'])
json.dump(meta,open(old,'w'),indent=1)
PY
  echo "  -> kept in $D"
else
  echo "  -> NOT kept"
fi
