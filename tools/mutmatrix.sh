#!/bin/bash
# tools/mutmatrix.sh [ids...]: run every seeded change (seeded/<id>/patch.diff) against the quick check of its property,
# in scratch worktrees of /repo (VERIF_REPO), never touching /repo itself. Writes seeded/RESULTS.tsv and updates meta.json detected_by.
cd /verif || exit 2
IDS=${@:-$(ls seeded | grep -E '^C[0-9]+-')}
SEED=${MUT_SEED:-1}
OUT=/verif/seeded/RESULTS.tsv; [ "$SEED" != 1 ] && OUT=/verif/seeded/RESULTS-seed$SEED.tsv
TMP=$(mktemp -d /tmp/mutmx.XXXX)
# the checks run from a snapshot of the committed /verif, so that the working tree may be edited meanwhile
VSNAP=$TMP/verif; mkdir -p $VSNAP; git -C /verif archive HEAD | tar -x -C $VSNAP
export VSNAP
run_one() {
  id=$1; prop=${id%%-*}; wt=$TMP/wt-$id
  git -C /repo worktree add -q --detach $wt HEAD || { echo -e "$id\t$prop\tworktree-failed"; return; }
  if ! git -C $wt apply /verif/seeded/$id/patch.diff 2>/dev/null && ! git -C $wt apply --3way /verif/seeded/$id/patch.diff 2>/dev/null; then
    echo -e "$id\t$prop\tPATCH-DOES-NOT-APPLY\t-"; git -C /repo worktree remove --force $wt; return; fi
  log=$TMP/$id.log
  VERIF_REPO=$wt VERIF_EVIDENCE_DIR=$TMP/ev-$id VERIF_REPLAY_DIR=$TMP/rp-$id $VSNAP/check $prop --tier quick --seed $SEED > $log 2>&1; rc=$?
  first=$(grep -A1 '^VIOLATION' $log | grep monitor= | head -1 | sed 's/^ *//' | cut -c1-160)
  echo -e "$id\t$prop\texit=$rc\t${first:-$(grep -E 'ERROR|INCONCLUSIVE' $log | head -1 | cut -c1-120)}"
  git -C /repo worktree remove --force $wt
}
export -f run_one; export TMP SEED
printf '%s\n' $IDS | xargs -P 3 -I{} bash -c 'run_one {}' | sort > $OUT.part
# merge: rows of the ids just run replace the old ones
touch $OUT; python3 - $OUT $OUT.part <<'PY'
import sys
import re
old={l.split('\t')[0]:l for l in open(sys.argv[1]) if re.match(r'C\d\d-\S+\t', l)}
new={l.split('\t')[0]:l for l in open(sys.argv[2]) if re.match(r'C\d\d-\S+\t', l)}
old.update(new)
open(sys.argv[1],'w').write(''.join(old[k] for k in sorted(old)))
PY
rm -f $OUT.part
git -C /repo worktree prune
rm -rf $TMP
cat $OUT
