#!/bin/bash
# tools/benignmatrix.sh [patches...]: property-preserving changes (benign/*.diff) must keep every quick check silent.
# Runs in scratch worktrees through VERIF_REPO; /repo is never touched. Writes benign/RESULTS.tsv.
cd /verif || exit 2
PATCHES=${@:-$(ls benign/*.diff)}
TMP=$(mktemp -d /tmp/benmx.XXXX)
# the checks run from a snapshot of the committed /verif, so that the working tree may be edited meanwhile
VSNAP=$TMP/verif; mkdir -p $VSNAP; git -C /verif archive HEAD | tar -x -C $VSNAP
export VSNAP
CHECKS=$(python3 -c "import json;print(' '.join(c['property_id'] for c in json.load(open('MANIFEST.json'))['checks']))")
[ -n "$BEN_CHECKS" ] && CHECKS=$BEN_CHECKS     # e.g. BEN_CHECKS="C03 C05" to re-run only the checks that changed
run_one() {
  p=$1; name=$(basename $p .diff); wt=$TMP/wt-$name
  git -C /repo worktree add -q --detach $wt HEAD || return
  git -C $wt apply /verif/$p || { echo -e "$name\t-\tPATCH-DOES-NOT-APPLY"; git -C /repo worktree remove --force $wt; return; }
  for c in $CHECKS; do
    log=$TMP/$name-$c.log
    VERIF_REPO=$wt VERIF_EVIDENCE_DIR=$TMP/ev-$name VERIF_REPLAY_DIR=$TMP/rp-$name $VSNAP/check $c --tier quick > $log 2>&1; rc=$?
    echo -e "$name\t$c\texit=$rc\t$(grep -A1 '^VIOLATION' $log | grep monitor= | head -1 | sed 's/^ *//' | cut -c1-200)$(grep -E '^ERROR' $log | head -1 | cut -c1-150)"
  done
  git -C /repo worktree remove --force $wt
}
export -f run_one; export TMP CHECKS
printf '%s\n' $PATCHES | xargs -P 3 -I{} bash -c 'run_one {}' > /verif/benign/RESULTS.tsv.new
# merge: rows of the patches just run replace the old ones
touch /verif/benign/RESULTS.tsv; python3 - /verif/benign/RESULTS.tsv /verif/benign/RESULTS.tsv.new <<'PY'
import sys
key=lambda l: tuple(l.split('\t')[:2])
old={key(l):l for l in open(sys.argv[1]) if l.strip()}
new={key(l):l for l in open(sys.argv[2]) if l.strip()}
names={k[0] for k in new}
import os
if not os.environ.get('BEN_CHECKS'):
    old={k:v for k,v in old.items() if k[0] not in names}   # a full run replaces all rows of its patches; a restricted run only its own (patch, check) rows
old.update(new)
open(sys.argv[1],'w').write(''.join(old[k] for k in sorted(old)))
PY
rm -f /verif/benign/RESULTS.tsv.new
git -C /repo worktree prune; rm -rf $TMP
grep -v 'exit=0' /verif/benign/RESULTS.tsv; echo "non-silent: $(grep -vc 'exit=0' /verif/benign/RESULTS.tsv) of $(wc -l < /verif/benign/RESULTS.tsv)"
