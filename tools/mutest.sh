#!/bin/bash
# tools/mutest.sh <patch.diff> <Cnn> [extra check args]: apply a seeded change to /repo, run one check, undo the change.
P=$(readlink -f "$1"); C=$2; shift 2
[ -z "$(git -C /repo status --porcelain)" ] || { echo "/repo not clean"; exit 2; }
git -C /repo apply --3way "$P" 2>/dev/null || git -C /repo apply "$P" || patch -d /repo -p1 --no-backup-if-mismatch < "$P" || { echo "patch does not apply"; git -C /repo reset -q --hard HEAD; git -C /repo clean -fdq; exit 2; }
/verif/check "$C" "$@"; rc=$?
git -C /repo reset -q --hard HEAD; git -C /repo clean -fdq 2>/dev/null
git -C /verif checkout -- evidence 2>/dev/null
rm -f /verif/replays/*.json
echo "exit=$rc"
