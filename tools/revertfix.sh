#!/bin/bash
# tools/revertfix.sh: for every "fixed:" entry of known_findings.json, take the fix commit back out of a scratch worktree of /repo
# (reverse patch on HEAD) and run the quick check of the entry's property: the violation must be reported again (a fixed entry
# suppresses nothing). Writes seeded/REVERTED-FIXES.tsv.  /repo itself is never touched.
cd /verif || exit 2
TMP=$(mktemp -d /tmp/revfix.XXXX)
VSNAP=$TMP/verif; mkdir -p $VSNAP; git -C /verif archive HEAD | tar -x -C $VSNAP
OUT=/verif/seeded/REVERTED-FIXES.tsv; : > $OUT
python3 -c "
import json,re
for l in json.load(open('/verif/known_findings.json'))['fixed']:
    m=re.match(r'fixed: property=(C\d\d) ([0-9a-f]+) ',l); print(m.group(1),m.group(2))
" | while read prop commit; do
  wt=$TMP/wt-$commit
  git -C /repo worktree add -q --detach $wt HEAD || continue
  if git -C $wt revert --no-commit $commit >/dev/null 2>&1; then
    log=$TMP/$commit.log
    VERIF_REPO=$wt VERIF_EVIDENCE_DIR=$TMP/ev-$commit VERIF_REPLAY_DIR=$TMP/rp-$commit $VSNAP/check $prop --tier quick > $log 2>&1; rc=$?
    first=$(grep -A1 '^VIOLATION' $log | grep monitor= | head -1 | sed 's/^ *//' | tr '\t' ' ' | cut -c1-160)
    echo -e "$commit\t$prop\texit=$rc\t${first:-$(grep -E 'ERROR|INCONCLUSIVE' $log | head -1 | cut -c1-120)}" | tee -a $OUT
  else
    echo -e "$commit\t$prop\tREVERT-CONFLICT\t-" | tee -a $OUT
  fi
  git -C /repo worktree remove --force $wt
done
git -C /repo worktree prune; rm -rf $TMP
