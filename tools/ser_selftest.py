#!/usr/bin/python3
"""Validates harness/bv/ser.py writers against independent decoders (and optionally bkl)."""
import random, sys, os, subprocess, json, tempfile
sys.path.insert(0, '/verif/harness')
from bv import ser, gen
from bv.val import veq, drop_nulls
HOSTILE = ['1', '1e3', '0x10', 'true', 'No', 'null', '~', '2001-01-01', '# x', '---', '+++', 'a: b', '- x', '&a', '*a', '!x', '|', '>', '', ' lead', 'trail ', 'q"uo', "s'q", 'back\\slash', 'ünï', 'a\nb', '<<', '=', '1:20', 'yes', '$x']
pool = gen.SCALARS + HOSTILE + [2**31, 2**53 + 1, 2**63 - 1, -2**63, 0.1, 1e100, 5e-324, 1.7976931348623157e308, 1/3]
rng = random.Random(int(sys.argv[1]) if len(sys.argv) > 1 else 1)
bad = 0
N = 3000
for i in range(N):
    docs = [gen.tree(rng, 3, 3, nulls=False, root='map', pool=pool, keys=gen.KEYS + HOSTILE[:12]) for _ in range(rng.randint(1, 3))]
    for fmt in ('json', 'yaml', 'toml'):
        for style in (None,):
            text = ser.write(fmt, docs, rng, style)
            try:
                back = ser.parse(fmt, text)
            except Exception as e:
                bad += 1
                print('PARSE FAIL', fmt, e, repr(text)[:300]); continue
            if not veq(back, docs):
                bad += 1
                print('MISMATCH', fmt, repr(text)[:400], docs, back)
    if bad > 5: break
print('selftest cases', N, 'bad', bad)
