#!/bin/bash
# Runs the pinned Go suite (hooks off) and the repository's shell tests against /repo (or $1).
# Used after every fix:/hook commit. Not a registered check.
R=${1:-/repo}
export GOFLAGS=-mod=mod GOPROXY=off
unset GOTOOLCHAIN GOSUMDB
cd "$R" || exit 2
go build ./... || { echo "BUILD FAILED"; exit 1; }
go vet ./... >/dev/null 2>&1 || echo "(vet complaints)"
out=$(go test -vet=off -count=1 ./... 2>&1) || { echo "$out" | tail -30; echo "GO SUITE FAILED"; exit 1; }
echo "go suite ok"
out=$(./test 2>&1) || { echo "$out" | tail -30; echo "SHELL TESTS FAILED"; exit 1; }
echo "shell tests ok: $(echo "$out" | grep -c '^TEST')"
