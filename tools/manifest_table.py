BUILT['C01'] = {
    'technique': 'reference-model monitor over generated layer chains (in-process worker + CLI sample)',
    'level': 'Runtime monitoring: every generated chain of 2-4 layers is executed by the real library (MergeDocument, Documents, Output) and a sample by the bkl binary; an independent executable statement of the documented merge rules runs next to it and must agree on accept/reject and on the merged tree after every layer. Holds only for the executions produced (tens of thousands quick, >1M thorough); says nothing about inputs not generated.',
    'note': 'Trusted: the reference merge model (harness/bv/model.py), the generators, the Go worker protocol. Regions the statement leaves open are skipped and counted (labels skipped:*).',
}
BUILT['C06'] = {
    'technique': 'identity / escape / layered-escape monitors over generated $-rich trees (in-process worker + CLI sample)',
    'level': 'Runtime monitoring: every generated tree over the property\'s alphabet is evaluated by the real library; plain trees must come back unchanged (minus nulls), trees with every $ doubled must come back as the original, and a doubled tree layered over a $-free parent must give the unescaped documented merge. Holds for the executions produced only.',
    'note': 'Trusted: generators, merge model for the layered variant, JSON decoding of outputs. Unterminated $" strings: identity or error both accepted.',
}
BUILT['C07'] = {
    'technique': 'marker-injection monitor with reference merge/$output model + universal output scan (in-process worker + YAML-file/CLI sample with anchors)',
    'level': 'Runtime monitoring: markers ($required, misplaced/misspelt/ill-typed directives) are injected into generated layer chains; the model says whether a marker ends up in an output document; the real evaluation must fail exactly then (with the required-field error for $required alone) and every successful output is scanned for $+lowercase strings. Holds for the executions produced only.',
    'note': 'Trusted: merge and $output models, marker catalogue (markers that can never be valid where injected). Cases where an upper layer edits a directive into a possibly valid one are skipped; hidden-only markers that still fail are counted, not judged.',
}
BUILT['C11'] = {
    'technique': 'reference-model monitor for $output selection: small-scope sweep (all shapes/kinds/markings up to 4-5 containers) + random trees and streams (in-process worker)',
    'level': 'Runtime monitoring: every tree shape with up to 4 (thorough 5) containers under every map/list and unmarked/true/false assignment, plus random larger trees and streams, is evaluated by the real library three times; the multiset of output documents must equal the model\'s selected subtrees with hidden parts cut and markers stripped; output order must be stable and follow document order. Exhaustive only for the swept sub-space.',
    'note': 'Trusted: $output model (harness/bv/model.py). Not judged: marked map as a direct list entry (code reports extra keys), list with both marker entries, order within one document beyond stability.',
}
BUILT['C02'] = {
    'technique': 'reference stream-model monitor + hook event log (merge/append events) + isolation re-run with the real merge (in-process worker, file/CLI sample)',
    'level': 'Runtime monitoring: generated histories (base stream + 1-3 layers, document-level $match in all its outcomes) run through the real Parser with the verif event hook on; the recorded merge/append events must be exactly the targets the documented selection rules give, Documents() after every layer must equal a purely functional stream model, and every final document is recomputed alone in a fresh parser with the real merge. Holds for the histories produced only.',
    'note': 'Trusted: stream/merge/match model, the verifEvent hook (merge.go mergeDocs, parser.go append). A history ends at the first rejected layer document (state after a failed merge is unspecified).',
}
BUILT['C17'] = {
    'technique': 'process-boundary reference-model monitor for bklr (skeleton model, idempotence re-run, agreement with bkl library error class and binary status)',
    'level': 'Runtime monitoring: generated single-document layer chains in mixed formats (plus all $required placements on four small shapes) are given to the real bklr binary; its decoded output must equal the model skeleton of the model-merged input, be empty iff no marker remains, be a fixed point of bklr, and bkl must refuse with the required-field error exactly when the skeleton is non-empty. Holds for the executions produced only.',
    'note': 'Trusted: merge + skeleton models, own serializers (validated against independent decoders), PyYAML core-schema/json decoders.',
}
BUILT['C19'] = {
    'technique': 'history monitor with before/after snapshots, repeated calls and a replayed control parser (in-process worker)',
    'level': 'Runtime monitoring: generated API histories (merges and layers interleaved with Documents/Output/OutputDocuments/OutputToWriter in several formats) over directive-rich documents; Documents() must be identical before and after every output call, a repeated output call must return identical bytes, and a control parser replaying only the merges must end with the same documents, merge statuses and outputs. Holds for the histories produced only. Fixed histories include string-form cross-document $merge/$replace of a subtree that still holds a map-form $merge.',
    'note': 'Trusted: worker snapshot encoding of Documents(). Comparison with the control stops at the first failed merge (partial merges are order-dependent by themselves).',
}
BUILT['C10'] = {
    'technique': 'metamorphic monitor: document with a planted reference vs the same document hand-expanded, both through the real evaluator (in-process worker)',
    'level': 'Runtime monitoring: for each generated document/stream one reference is planted at a known host ($merge/$replace; map, list, string form; dotted, list, cross-document addressing; chains; hidden templates) and the same document is expanded by hand ($replace: raw subtree; $merge: documented merge of the referenced value onto the local content). The real evaluator must give byte-identical outputs for both, leave the referenced subtree/document unchanged, and fail for dangling paths and patterns matching 0 or >=2 documents. Holds for the executions produced only.',
    'note': 'Trusted: merge model for the expansion, generators. Host and target never overlap.',
}
BUILT['C12'] = {
    'technique': 'metamorphic monitor: $repeat template rendered as directive vs hand-unrolled copies, both through the real evaluator (in-process worker)',
    'level': 'Runtime monitoring: token-carrying templates are rendered once with $repeat syntax and once unrolled by the harness (index substituted at exactly the planted places; named counts as cartesian product in lexicographic name order; nested repeats; count overridden by a child layer); outputs of the real evaluator must be byte-identical with exactly n copies; non-integer counts must fail. Fixed sweep over counts 0-5 x positions and all 27 three-name count combinations, plus random templates. Holds for the executions produced only.',
    'note': 'Trusted: the hand-unroller (harness/bv/props/c12.py expand), merge model for the count override.',
}
BUILT['C13'] = {
    'technique': 'reference monitor by plain concatenation; one worker child per environment batch; CLI sample',
    'level': 'Runtime monitoring: templates of literal segments and references (document paths, $env:NAME, repeat variable), whole-value and key $env, evaluated by the real library in a child process spawned with the case\'s environment; results must equal the harness\'s plain concatenation, $env results must be strings with exactly the variable\'s bytes, missing references must fail; the environment is also changed between evaluations inside one process (the value at evaluation time counts). Holds for the executions produced only. A fixed probe checks that {$repeat} under a map-level repeat stays the enclosing index after a nested list repeat, and fails outside any repeat.',
    'note': 'Trusted: generators and expected-string computation. Environment values containing $ are excluded from the generated workload: three recorded known findings (known_findings.json) are re-run on every invocation instead.',
}
BUILT['C14'] = {
    'technique': 'independent-oracle monitor (hashlib/base64/json/PyYAML core schema/tomllib + reference list transforms), shared-codec and inverse ($decode) monitors (in-process worker)',
    'level': 'Runtime monitoring: every transform and stacks of up to 3 with valid and invalid arguments over generated values, hosted as map keys, $value and list entries; results must equal independent implementations folded left to right, format texts must decode (independent parsers) to the value and be byte-identical to bkl\'s own output of that format, flags must equal [tolist:=, prefix:--], malformed arguments/wrong input kinds must fail, and $decode of the produced text must give the value back as seen through json, yaml and toml output. Holds for the executions produced only.',
    'note': 'Trusted: Python stdlib codecs, PyYAML (core-schema loader), tomllib, the reference list-transform functions in harness/bv/props/c14.py. Text form of floats/non-scalars in text transforms and toml of non-maps are not judged.',
}
BUILT['C15'] = {
    'technique': 'process-boundary metamorphic monitor: real bkld then real bkl on generated (base, edited target) pairs in mixed formats',
    'level': 'Runtime monitoring: for every generated pair the real bkld binary writes the layer, the layer is stored as base.diff.<ext> and the real bkl binary must accept it and evaluate to exactly the target; identical pairs must give an empty/neutral layer. Edit scripts cover key add/remove/change, list append/remove/reorder/duplicate/insert/partial-match removals, kind changes in all directions and retyped scalars. Holds for the executions produced only.',
    'note': 'Trusted: own serializers (validated against independent decoders), python json decoding of bkl output. Minimality/shape of the diff is not judged.',
}
BUILT['C16'] = {
    'technique': 'process-boundary reference monitor for bkli (independent multiset intersection) + idempotence + migrate round trip through real bkld and bkl',
    'level': 'Runtime monitoring: the real bkli output for generated sets of 2-4 related/unrelated trees (all generated argument orders and format mixes) must equal an independent maximal-common-base computation (lists as multisets), bkli x x must give x, and for each input the real bkld from the bkli result followed by the real bkl must reproduce the input exactly. Holds for the executions produced only.',
    'note': 'Trusted: the independent intersection in harness/bv/props/c16.py, own serializers, independent decoders. Order of entries inside intersected lists is not judged.',
}
BUILT['C05'] = {
    'technique': 'round-trip monitor (independent decoders + bkl re-read of its own output) and process-boundary format-selection monitor (library + CLI routes)',
    'level': 'Runtime monitoring: generated streams full of token look-alikes and numeric edge values are written by the real library in all six formats; each output is decoded by an independent parser (python json, PyYAML restricted to the YAML 1.2 core schema, tomllib) and read back by bkl itself, and both must give the same documents; every combination of -f, -o extension, real/virtual input extension and the library defaults must write exactly Output(f) for the format the rule selects. Holds for the executions produced only. Every third stream is also output, given a later layer that lands in an existing document, and output again: the second bytes must decode to what OutputDocuments returns then.',
    'note': 'Trusted: independent decoders, own input serializers. YAML-1.1-only readings are counted, not judged. Three upstream yaml.v3 emitter defects ("<<" key, "<<" value, leading newline) are recorded known findings and excluded from the generated alphabet.',
}
BUILT['C03'] = {
    'technique': 'reference chain-resolution model + hook load-event log + metamorphic variants (rename, $parent re-expression, re-serialization under other extensions) at the process boundary',
    'level': 'Runtime monitoring: generated directory layouts (filename chains, $parent string/list/wildcard/false/null in any document, symlinks, several inputs, -P, missing layers) run through the real bkl binary and MergeFileLayers; the output must equal the base-first fold of the layers an independent resolution model selects, the files opened (verifEvent load) must be the model\'s sequence, consistent renaming / expressing filename links by $parent / re-serializing files under other extensions must leave the output bytes unchanged, and a missing layer must fail with empty stdout. Holds for the layouts produced only. One worker process also evaluates one top layer while its lower layer is absent, created, moved to another extension and removed (the chain is resolved from the directory as it is at that moment); symlink layouts include links to links.',
    'note': 'Trusted: chain model (harness/bv/props/c03.py), stream/merge model, own serializers, the load event hook in file.go. One file per layer name; no diamonds.',
}
BUILT['C04'] = {
    'technique': 'metamorphic monitor over all 3^n format assignments (+ YAML anchor/alias/merge-key and TOML style variants) with a typed reference-model comparison (in-process worker from files, CLI sample)',
    'level': 'Runtime monitoring: each generated layer set (numbers chosen so that $match/$delete patterns, $repeat counts and useless-override checks depend on numeric equality) is written in every JSON/YAML/TOML assignment by the harness\'s own serializers and evaluated by the real library; all assignments must agree on success and give byte-identical json/yaml/toml output, and the typed result must equal the reference model on the logical trees (integers exact, doubles bit-identical). Holds for the layer sets produced only. The YAML anchor variant also carries a merge key holding a list of three aliases with overlapping keys.',
    'note': 'Trusted: own serializers (validated against independent decoders), stream/merge model, worker value encoding (int vs float vs other Go types).',
}
BUILT['C08'] = {
    'technique': 'crash/termination monitors at the process boundary and in-process, termination decided by the verifStep hook\'s logical step budget; hostile structure-aware, byte-mutated and cycle-zoo workloads; fault injection (/dev/full on output, strace-injected EIO on reads of layer files)',
    'level': 'Runtime monitoring: hostile generated documents (every directive at every position with every argument type, mutated; 1-3 layers), byte-mutated JSON/TOML and token-mutated YAML seeds (generated, tests/*, FuzzParser corpus), a zoo of reference/interpolation cycles and every $parent graph over <= 3 files are run through the library (worker child, panics recovered, deaths and step-budget overruns observed) and the bkl/bkld/bkli/bklr binaries; status must be 0 with complete output equal to the library\'s, or 1 with empty stdout and a diagnostic; never a panic, fatal error, signal or more than 2,000,000 hook steps; cycles must be reported as errors; a full output device and a failing read of a layer file (injected with strace into bkl, bkld, bkli, bklr and the bklb wrapper) must be reported; the wrapper must fail whenever the evaluation fails. Holds for the executions produced only.',
    'note': 'Trusted: verifStep hook placement (process1, process2, process2String, merge, get, loadFileAndParents), generator bounds ($repeat <= 6) that keep legitimate work far below the budget. TOML output of non-map documents and the empty file left by a failed -o are not judged.',
}
BUILT['C09'] = {
    'technique': 'history monitor over (input, run kind, status, sha256(output)) events: repeated in-process, fresh processes, and concurrent goroutines under the Go race detector (-race build of the worker)',
    'level': 'Runtime monitoring: inputs pooled from the other properties\' generators plus determinism-specific shapes are evaluated N times in one process, from G goroutines at once (half of them on other inputs) in a -race build for R rounds, and in fresh processes from files with shuffled key order; wildcard parents over mixed formats, a lower layer that changes its extension between two evaluations in one process, and bkld/bkli/bklr repeated on the same files are part of the workload; all events of one input must be identical and the race detector must report nothing. Holds for the executions and interleavings produced only. File cases include parent/child pairs whose child overrides below the top level, evaluated repeatedly in one process; fixed programs include maps carrying both $encode and $decode.',
    'note': 'Trusted: Go race detector (reports only races on executed paths), worker concurrency driver (one Parser per goroutine). Error messages are not compared.',
}
BUILT['C18'] = {
    'technique': 'syscall-trace monitor (strace -f -y on the real binary) + non-interference monitor (decoys rewritten / removed) at the process boundary and through nested SetRoot in the library',
    'level': 'Runtime monitoring: sandbox trees with decoy layers outside the root that inputs inside the root try to reach ($parent with .., absolute, wildcard; file/dir/chained/absolute/re-entering symlinks; sibling directories whose names extend the root\'s); all root spellings and nested SetRoot escape attempts. Under strace no read-class syscall may touch a regular file outside the root; re-running with decoys rewritten and removed must not change stdout/status; decoy content must never appear. Holds for the executions produced only.',
    'note': 'Trusted: strace -y fd-to-path decoding, the trace parser (self-checked), layout builder. Existence probes (stat/readlink/getdents) outside the root are counted, not judged.',
}
BUILT['C20'] = {
    'technique': 'wrapped-program-boundary monitor: a recording spy placed on PATH behind bklb (symlink spyb) and kubectl-bkl, expectations taken from the real bkl binary',
    'level': 'Runtime monitoring: generated argument vectors (flags, --opt=value, words, non-bkl files, layers with parents, virtual names, two names for one layer, unsupported extensions, missing names, failing layers) are passed to the real wrappers; the spy\'s recorded argv must have the same length and order, non-resolvable arguments byte-identical, every resolvable one replaced by a file whose bytes equal `bkl <arg>`, the wrapped program\'s exit status passed on, and the spy must not run when an evaluation fails. Holds for the executions produced only.',
    'note': 'Trusted: the spy (harness/go/cmd/spy), the resolvability rule restated in harness/bv/props/c20.py. Temp-file naming/clean-up and -.ext arguments are not judged.',
}
