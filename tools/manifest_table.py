BUILT['C01'] = {
    'technique': 'reference-model monitor over generated layer chains (in-process worker + CLI sample)',
    'level': 'Runtime monitoring: every generated chain of 2-4 layers is executed by the real library (MergeDocument, Documents, Output) and a sample by the bkl binary; an independent executable statement of the documented merge rules runs next to it and must agree on accept/reject and on the merged tree after every layer. Holds only for the executions produced (tens of thousands quick, >1M thorough); says nothing about inputs not generated.',
    'note': 'Trusted: the reference merge model (harness/bv/model.py), the generators, the Go worker protocol. Regions the statement leaves open are skipped and counted (labels skipped:*).',
}
BUILT['C06'] = {
    'technique': 'identity / escape / layered-escape monitors over generated $-rich trees (in-process worker + CLI sample)',
    'level': 'Runtime monitoring: every generated tree over the property\'s alphabet is evaluated by the real library; plain trees must come back unchanged (minus nulls), trees with every $ doubled must come back as the original, and a doubled tree layered over a $-free parent must give the unescaped documented merge. Holds for the executions produced only.',
    'note': 'Trusted: generators, merge model for the layered variant, JSON decoding of outputs. Unterminated $" strings: identity or error both accepted.',
}
BUILT['C07'] = {
    'technique': 'marker-injection monitor with reference merge/$output model + universal output scan (in-process worker + YAML-file/CLI sample with anchors)',
    'level': 'Runtime monitoring: markers ($required, misplaced/misspelt/ill-typed directives) are injected into generated layer chains; the model says whether a marker ends up in an output document; the real evaluation must fail exactly then (with the required-field error for $required alone) and every successful output is scanned for $+lowercase strings. Holds for the executions produced only.',
    'note': 'Trusted: merge and $output models, marker catalogue (markers that can never be valid where injected). Cases where an upper layer edits a directive into a possibly valid one are skipped; hidden-only markers that still fail are counted, not judged.',
}
BUILT['C11'] = {
    'technique': 'reference-model monitor for $output selection: small-scope sweep (all shapes/kinds/markings up to 4-5 containers) + random trees and streams (in-process worker)',
    'level': 'Runtime monitoring: every tree shape with up to 4 (thorough 5) containers under every map/list and unmarked/true/false assignment, plus random larger trees and streams, is evaluated by the real library three times; the multiset of output documents must equal the model\'s selected subtrees with hidden parts cut and markers stripped; output order must be stable and follow document order. Exhaustive only for the swept sub-space.',
    'note': 'Trusted: $output model (harness/bv/model.py). Not judged: marked map as a direct list entry (code reports extra keys), list with both marker entries, order within one document beyond stability.',
}
