BUILT['C01'] = {
    'technique': 'reference-model monitor over generated layer chains (in-process worker + CLI sample)',
    'level': 'Runtime monitoring: every generated chain of 2-4 layers is executed by the real library (MergeDocument, Documents, Output) and a sample by the bkl binary; an independent executable statement of the documented merge rules runs next to it and must agree on accept/reject and on the merged tree after every layer. Holds only for the executions produced (tens of thousands quick, >1M thorough); says nothing about inputs not generated.',
    'note': 'Trusted: the reference merge model (harness/bv/model.py), the generators, the Go worker protocol. Regions the statement leaves open are skipped and counted (labels skipped:*).',
}
