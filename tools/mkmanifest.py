#!/usr/bin/python3
"""Regenerates /verif/MANIFEST.json from the table below (kept valid at all times)."""
import json, os, subprocess, sys
V = '/verif'
props = [json.loads(l) for l in open(V + '/properties.jsonl')]
hooks_commits = subprocess.run(['git', '-C', '/repo', 'log', '--format=%H %s', '--grep=^verif hooks'], stdout=subprocess.PIPE, text=True).stdout.split('\n')
hooks_commits = [l.split()[0] for l in hooks_commits if l.strip()]

# id -> (technique, level text, level note, design ref)
BUILT = {}
exec(open(V + '/tools/manifest_table.py').read())

checks = []
na = []
for p in props:
    i = p['id']
    if i in BUILT and os.path.exists('%s/harness/bv/props/%s.py' % (V, i.lower())):
        t = BUILT[i]
        checks.append({
            'property_id': i,
            'quick_cmd': './check %s --tier quick' % i,
            'thorough_cmd': './check %s --tier thorough' % i,
            'evidence_file': '/verif/evidence/%s.json' % i,
            'replay_cmd_template': './check %s --replay {path}' % i,
            'engine': 'bklverif',
            'level_claimed': {'category': 'exploration', 'text': t['level'], 'design_ref': 'DESIGN.md section 7, ' + i},
            'level_note': t['note'],
            'technique': t['technique'],
        })
    else:
        na.append({'property_id': i, 'reason': 'no check registered yet: the monitor for this property is not built (work in progress, see DESIGN.md section 7)'})
m = {
    'version': 1,
    'setup_cmd': './setup.sh',
    'hooks': {
        'guard': 'verif',
        'enable': 'go build -tags verif (worker: harness/go/cmd/worker linked to /repo via replace; binaries: go build -tags verif ./cmd/...)',
        'baseline_off_cmd': 'cd /repo && GOFLAGS=-mod=mod GOPROXY=off go test -json -vet=off -count=1 -timeout 25m ./...',
        'source_commits': hooks_commits,
        'add_only': True,
    },
    'engines': [{'name': 'bklverif', 'path': '/verif/harness', 'serves_properties': [c['property_id'] for c in checks],
                 'kind_free_text': 'runtime monitoring: Python driver (generators, reference models, metamorphic/history monitors, evidence) + Go worker executing the real library in-process (hooks on) + the real binaries at the process boundary (+ strace, + race detector)'}],
    'checks': checks,
    'not_applicable': na,
    'notes': 'All checks rebuild the code under test from /repo\'s working tree into a scratch directory on every run (tag verif). Exit 0 held / 1 VIOLATION / 2 infrastructure error. See DESIGN.md.',
}
json.dump(m, open(V + '/MANIFEST.json', 'w'), indent=1)
print('checks:', [c['property_id'] for c in checks], 'not claimed:', len(na))
