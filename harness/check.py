import argparse
import importlib
import os
import sys

sys.path.insert(0, os.path.dirname(os.path.abspath(__file__)))

from bv import core  # noqa: E402


def main():
    ap = argparse.ArgumentParser()
    ap.add_argument('prop')
    ap.add_argument('--tier', default=os.environ.get('VERIF_TIER') or 'quick')
    ap.add_argument('--seed', type=int, default=int(os.environ.get('VERIF_SEED') or 1))
    ap.add_argument('--replay')
    a = ap.parse_args()
    if a.tier not in ('quick', 'thorough'):
        a.tier = 'quick'
    mod = importlib.import_module('bv.props.' + a.prop.lower())
    sys.exit(core.run_property(mod, a.tier, a.seed, a.replay))


main()
