// spy: recording stand-in for the program wrapped by bklb / kubectl-bkl.
// Writes its argv and the bytes of every argument that names an existing
// regular file as one JSON object to the file named by SPY_OUT, then exits
// with SPY_EXIT (default 0).
package main

import (
	"encoding/base64"
	"encoding/json"
	"os"
	"strconv"
)

func main() {
	type rec struct {
		Argv  []string          `json:"argv"`
		Files map[string]string `json:"files"`
		Cwd   string            `json:"cwd"`
	}

	r := rec{Argv: []string{}, Files: map[string]string{}}

	for _, a := range os.Args {
		r.Argv = append(r.Argv, base64.StdEncoding.EncodeToString([]byte(a)))
	}

	for _, a := range os.Args[1:] {
		st, err := os.Stat(a)
		if err != nil || !st.Mode().IsRegular() {
			continue
		}

		b, err := os.ReadFile(a)
		if err == nil {
			r.Files[base64.StdEncoding.EncodeToString([]byte(a))] = base64.StdEncoding.EncodeToString(b)
		}
	}

	r.Cwd, _ = os.Getwd()

	if out := os.Getenv("SPY_OUT"); out != "" {
		b, _ := json.Marshal(r)
		_ = os.WriteFile(out, b, 0o644)
	}

	code, _ := strconv.Atoi(os.Getenv("SPY_EXIT"))
	os.Exit(code)
}
