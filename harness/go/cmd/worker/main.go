//go:build verif

// worker: in-process executor for the /verif runtime monitors.
//
// Reads one JSON request per line on stdin, executes the API calls it lists
// against the bkl library linked from /repo (through the replace directive),
// and writes one JSON result line on stdout. It knows nothing about the
// properties: all generation, models and oracles live in the Python driver.
package main

import (
	"bufio"
	"bytes"
	"encoding/base64"
	"encoding/json"
	"errors"
	"fmt"
	"math"
	"os"
	"runtime/debug"
	"sort"
	"strconv"
	"strings"
	"sync"
	"unicode/utf8"

	"github.com/gopatchy/bkl"
)

type op struct {
	Op      string          `json:"op"`
	ID      string          `json:"id,omitempty"`
	Parents []string        `json:"parents,omitempty"`
	Data    json.RawMessage `json:"data,omitempty"`
	Path    string          `json:"path,omitempty"`
	Format  string          `json:"format,omitempty"`
	Parser  int             `json:"parser,omitempty"`
	Cases   [][]op          `json:"cases,omitempty"`
	Repeat  int             `json:"repeat,omitempty"`
}

type request struct {
	ID     int   `json:"id"`
	Ops    []op  `json:"ops"`
	Budget int64 `json:"budget"`
	Events bool  `json:"events"`
}

type opResult struct {
	Err    *string  `json:"err"`
	Is     []string `json:"is,omitempty"`
	Panic  *string  `json:"panic,omitempty"`
	Budget bool     `json:"budget,omitempty"`
	Out    *string  `json:"out,omitempty"`
	OutB64 *string  `json:"out_b64,omitempty"`
	Docs   any      `json:"docs,omitempty"`
	Values any      `json:"values,omitempty"`
	Sub    any      `json:"sub,omitempty"`
}

type response struct {
	ID      int        `json:"id"`
	Results []opResult `json:"results"`
	Steps   int64      `json:"steps"`
	Sites   []int64    `json:"sites"`
	Events  []string   `json:"events,omitempty"`
	Stale   int        `json:"stale,omitempty"`
}

var errTable = map[string]error{
	"Err": bkl.Err, "ErrCircularRef": bkl.ErrCircularRef, "ErrConflictingParent": bkl.ErrConflictingParent,
	"ErrExtraEntries": bkl.ErrExtraEntries, "ErrExtraKeys": bkl.ErrExtraKeys, "ErrInvalidArguments": bkl.ErrInvalidArguments,
	"ErrInvalidDirective": bkl.ErrInvalidDirective, "ErrInvalidIndex": bkl.ErrInvalidIndex, "ErrInvalidFilename": bkl.ErrInvalidFilename,
	"ErrInvalidType": bkl.ErrInvalidType, "ErrInvalidParent": bkl.ErrInvalidParent, "ErrInvalidRepeat": bkl.ErrInvalidRepeat,
	"ErrMarshal": bkl.ErrMarshal, "ErrRefNotFound": bkl.ErrRefNotFound, "ErrMissingEnv": bkl.ErrMissingEnv,
	"ErrMissingFile": bkl.ErrMissingFile, "ErrMissingMatch": bkl.ErrMissingMatch, "ErrMultiMatch": bkl.ErrMultiMatch,
	"ErrNoMatchFound": bkl.ErrNoMatchFound, "ErrOutputFile": bkl.ErrOutputFile, "ErrRequiredField": bkl.ErrRequiredField,
	"ErrUnknownFormat": bkl.ErrUnknownFormat, "ErrUnmarshal": bkl.ErrUnmarshal, "ErrUselessOverride": bkl.ErrUselessOverride,
	"ErrVariableNotFound": bkl.ErrVariableNotFound,
}

var errNames []string

func init() {
	for k := range errTable {
		errNames = append(errNames, k)
	}

	sort.Strings(errNames)
}

// decodeValue turns the driver's JSON into exactly the Go types that
// loadFile+normalize produce: int, float64, string, bool, nil, map[string]any, []any.
// A number literal without '.', 'e' or 'E' is an int.
func decodeValue(raw json.RawMessage) (any, error) {
	if len(raw) == 0 {
		return nil, nil
	}

	dec := json.NewDecoder(bytes.NewReader(raw))
	dec.UseNumber()

	var v any

	if err := dec.Decode(&v); err != nil {
		return nil, err
	}

	return conv(v)
}

func conv(v any) (any, error) {
	switch v2 := v.(type) {
	case map[string]any:
		if t, ok := v2["$go"]; ok && len(v2) == 2 {
			return convSpecial(t, v2["v"])
		}

		ret := make(map[string]any, len(v2))

		for k, x := range v2 {
			y, err := conv(x)
			if err != nil {
				return nil, err
			}

			ret[k] = y
		}

		return ret, nil

	case []any:
		ret := make([]any, len(v2))

		for i, x := range v2 {
			y, err := conv(x)
			if err != nil {
				return nil, err
			}

			ret[i] = y
		}

		return ret, nil

	case json.Number:
		s := string(v2)
		if !strings.ContainsAny(s, ".eE") {
			n, err := strconv.ParseInt(s, 10, 64)
			if err == nil {
				return int(n), nil
			}
		}

		return strconv.ParseFloat(s, 64)

	default:
		return v, nil
	}
}

// convSpecial builds values of Go types that JSON cannot name: {"$go":"int64","v":"5"}.
func convSpecial(t any, v any) (any, error) {
	s, _ := v.(string)

	switch t {
	case "int64":
		n, err := strconv.ParseInt(s, 10, 64)
		return n, err
	case "float":
		return strconv.ParseFloat(s, 64)
	case "json.Number":
		return json.Number(s), nil
	case "bytes":
		return []byte(s), nil
	case "mapanyany":
		return map[any]any{s: s}, nil
	case "listmap":
		return []map[string]any{{s: s}}, nil
	default:
		return nil, fmt.Errorf("unknown $go type %v", t)
	}
}

// encodeValue writes a value tree so that the driver can tell int from float
// and sees any Go type that should not be there.
func encodeValue(buf *bytes.Buffer, v any) {
	switch v2 := v.(type) {
	case nil:
		buf.WriteString("null")
	case bool:
		if v2 {
			buf.WriteString("true")
		} else {
			buf.WriteString("false")
		}
	case int:
		buf.WriteString(strconv.Itoa(v2))
	case float64:
		if math.IsNaN(v2) || math.IsInf(v2, 0) {
			special(buf, "float", fmt.Sprint(v2))
			return
		}

		s := strconv.FormatFloat(v2, 'g', -1, 64)
		if !strings.ContainsAny(s, ".e") {
			s += ".0"
		}

		buf.WriteString(s)
	case string:
		writeString(buf, v2)
	case map[string]any:
		keys := make([]string, 0, len(v2))
		for k := range v2 {
			keys = append(keys, k)
		}

		sort.Strings(keys)
		buf.WriteByte('{')

		for i, k := range keys {
			if i > 0 {
				buf.WriteByte(',')
			}

			writeString(buf, k)
			buf.WriteByte(':')
			encodeValue(buf, v2[k])
		}

		buf.WriteByte('}')
	case []any:
		buf.WriteByte('[')

		for i, x := range v2 {
			if i > 0 {
				buf.WriteByte(',')
			}

			encodeValue(buf, x)
		}

		buf.WriteByte(']')
	default:
		special(buf, fmt.Sprintf("%T", v), fmt.Sprint(v))
	}
}

func special(buf *bytes.Buffer, t, v string) {
	buf.WriteString(`{"$go":`)
	writeString(buf, t)
	buf.WriteString(`,"v":`)
	writeString(buf, v)
	buf.WriteByte('}')
}

func writeString(buf *bytes.Buffer, s string) {
	b, _ := json.Marshal(s)
	buf.Write(b)
}

func encoded(v any) json.RawMessage {
	buf := &bytes.Buffer{}
	encodeValue(buf, v)

	return json.RawMessage(buf.Bytes())
}

type session struct {
	parsers []*bkl.Parser
	docs    map[string]*bkl.Document
	held    []heldOutput
}

// heldOutput keeps the slice an output call returned (not a copy) next to a
// copy taken at that moment: if a later call changes the bytes behind the
// returned slice, the two differ at the end of the request.
type heldOutput struct {
	op   int
	orig []byte
	copy string
}

func (s *session) parser(i int) (*bkl.Parser, error) {
	for len(s.parsers) <= i {
		p, err := bkl.New()
		if err != nil {
			return nil, err
		}

		s.parsers = append(s.parsers, p)
	}

	return s.parsers[i], nil
}

func setErr(res *opResult, err error) {
	if err == nil {
		return
	}

	msg := err.Error()
	res.Err = &msg

	for _, name := range errNames {
		if errors.Is(err, errTable[name]) {
			res.Is = append(res.Is, name)
		}
	}
}

func setOut(res *opResult, out []byte) {
	if utf8.Valid(out) {
		s := string(out)
		res.Out = &s
	} else {
		s := base64.StdEncoding.EncodeToString(out)
		res.OutB64 = &s
	}
}

func (s *session) exec(o op) (res opResult) {
	defer func() {
		if r := recover(); r != nil {
			if _, ok := r.(bkl.VerifBudgetExceeded); ok {
				res.Budget = true
				msg := "step budget exceeded"
				res.Panic = &msg

				return
			}

			msg := fmt.Sprintf("%v\n%s", r, debug.Stack())
			res.Panic = &msg
		}
	}()

	p, err := s.parser(o.Parser)
	if err != nil {
		setErr(&res, err)
		return res
	}

	switch o.Op {
	case "merge_doc":
		data, err := decodeValue(o.Data)
		if err != nil {
			setErr(&res, fmt.Errorf("worker: bad data: %w", err))
			return res
		}

		doc := bkl.NewDocumentWithData(o.ID, data)

		for _, pid := range o.Parents {
			if pd, ok := s.docs[pid]; ok {
				doc.AddParents(pd)
			}
		}

		s.docs[o.ID] = doc
		setErr(&res, p.MergeDocument(doc))

	case "merge_layers":
		setErr(&res, p.MergeFileLayers(o.Path))

	case "merge_file":
		setErr(&res, p.MergeFile(o.Path))

	case "set_root":
		setErr(&res, p.SetRoot(o.Path))

	case "set_debug":
		p.SetDebug(true)

	case "setenv":
		// ID = variable name; Format = value; Path == "unset" removes it
		if o.Path == "unset" {
			setErr(&res, os.Unsetenv(o.ID))
		} else {
			setErr(&res, os.Setenv(o.ID, o.Format))
		}

	case "output":
		out, err := p.Output(o.Format)
		setErr(&res, err)

		if err == nil {
			s.held = append(s.held, heldOutput{op: len(s.held), orig: out, copy: string(out)})
			setOut(&res, out)
		}

	case "to_writer":
		buf := &bytes.Buffer{}
		err := p.OutputToWriter(buf, o.Format)
		setErr(&res, err)

		if err == nil {
			setOut(&res, buf.Bytes())
		}

	case "to_file":
		setErr(&res, p.OutputToFile(o.Path, o.Format))

	case "output_docs":
		outs, err := p.OutputDocuments()
		setErr(&res, err)

		if err == nil {
			res.Values = encoded(outs)
		}

	case "documents":
		docs := p.Documents()
		list := make([]any, 0, len(docs))

		for _, d := range docs {
			parents := []any{}
			for _, pd := range d.Parents {
				parents = append(parents, pd.ID)
			}

			list = append(list, map[string]any{"id": d.ID, "parents": parents, "data": d.Data})
		}

		res.Docs = encoded(list)

	case "file_match":
		real, f, err := bkl.FileMatch(o.Path)
		setErr(&res, err)

		if err == nil {
			res.Values = encoded([]any{real, f})
		}

	case "concurrent":
		// Every case runs in its own goroutine with its own session, all
		// released at once; Repeat rounds.
		rounds := o.Repeat
		if rounds < 1 {
			rounds = 1
		}

		all := make([][][]opResult, rounds)

		for r := 0; r < rounds; r++ {
			results := make([][]opResult, len(o.Cases))
			start := make(chan struct{})

			var wg sync.WaitGroup

			for i, c := range o.Cases {
				wg.Add(1)

				go func(i int, c []op) {
					defer wg.Done()

					<-start

					s2 := &session{docs: map[string]*bkl.Document{}}
					for _, o2 := range c {
						results[i] = append(results[i], s2.exec(o2))
					}
				}(i, c)
			}

			close(start)
			wg.Wait()

			all[r] = results
		}

		res.Sub = all

	default:
		setErr(&res, fmt.Errorf("worker: unknown op %q", o.Op))
	}

	return res
}

func main() {
	debug.SetMaxStack(256 << 20)

	in := bufio.NewReaderSize(os.Stdin, 1<<20)
	out := bufio.NewWriterSize(os.Stdout, 1<<20)
	enc := json.NewEncoder(out)
	enc.SetEscapeHTML(false)

	for {
		line, err := in.ReadBytes('\n')
		if len(line) > 0 {
			var req request

			if jerr := json.Unmarshal(line, &req); jerr != nil {
				fmt.Fprintf(os.Stderr, "worker: bad request: %v\n", jerr)
				os.Exit(3)
			}

			bkl.VerifReset(req.Budget, req.Events)

			s := &session{docs: map[string]*bkl.Document{}}
			resp := response{ID: req.ID}

			for _, o := range req.Ops {
				resp.Results = append(resp.Results, s.exec(o))
			}

			for _, h := range s.held {
				if string(h.orig) != h.copy {
					resp.Stale++
				}
			}

			total, sites := bkl.VerifSteps()
			resp.Steps = total
			resp.Sites = sites[:]

			if req.Events {
				resp.Events = bkl.VerifEvents()
			}

			if eerr := enc.Encode(resp); eerr != nil {
				fmt.Fprintf(os.Stderr, "worker: encode: %v\n", eerr)
				os.Exit(3)
			}

			out.Flush()
		}

		if err != nil {
			return
		}
	}
}
