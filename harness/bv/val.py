"""Value domain shared by all monitors: JSON-like trees with int/float/bool kept apart."""
import json
import math


def is_num(v):
    return isinstance(v, (int, float)) and not isinstance(v, bool)


def kind(v):
    if v is None:
        return 'null'
    if isinstance(v, bool):
        return 'bool'
    if isinstance(v, int):
        return 'int'
    if isinstance(v, float):
        return 'float'
    if isinstance(v, str):
        return 'str'
    if isinstance(v, dict):
        return 'map'
    if isinstance(v, list):
        return 'list'
    return type(v).__name__


def seq(a, b, loose=False):
    """Scalar equality the way bkl compares (Go interface ==): type-exact.
    loose=True: an int equals a float iff numerically identical (what a JSON
    reader can observe)."""
    ka, kb = kind(a), kind(b)
    if ka == kb:
        if ka == 'float':
            return a == b or (math.isnan(a) and math.isnan(b))
        return a == b
    if loose and ka in ('int', 'float') and kb in ('int', 'float'):
        try:
            if ka == 'float':
                return float(a).is_integer() and int(a) == b
            return float(b).is_integer() and int(b) == a
        except (OverflowError, ValueError):
            return False
    return False


def veq(a, b, loose=False):
    """Deep equality: maps by key set, lists by order, scalars by seq()."""
    if isinstance(a, dict):
        if not isinstance(b, dict) or len(a) != len(b):
            return False
        for k, v in a.items():
            if k not in b or not veq(v, b[k], loose):
                return False
        return True
    if isinstance(a, list):
        if not isinstance(b, list) or len(a) != len(b):
            return False
        return all(veq(x, y, loose) for x, y in zip(a, b))
    if isinstance(b, (dict, list)):
        return False
    return seq(a, b, loose)


def clone(v):
    if isinstance(v, dict):
        return {k: clone(x) for k, x in v.items()}
    if isinstance(v, list):
        return [clone(x) for x in v]
    return v


def drop_nulls(v):
    """What evaluation does to plain data: null map values and null list entries vanish."""
    if isinstance(v, dict):
        return {k: drop_nulls(x) for k, x in v.items() if x is not None}
    if isinstance(v, list):
        return [drop_nulls(x) for x in v if x is not None]
    return v


def walk(v, path=()):
    """Yield (path, node) for every node; map keys are yielded as nodes too via ('key', k)."""
    yield path, v
    if isinstance(v, dict):
        for k, x in v.items():
            yield from walk(x, path + (k,))
    elif isinstance(v, list):
        for i, x in enumerate(v):
            yield from walk(x, path + (i,))


def strings_of(v):
    """All strings of a tree: keys and values."""
    if isinstance(v, dict):
        for k, x in v.items():
            yield k
            yield from strings_of(x)
    elif isinstance(v, list):
        for x in v:
            yield from strings_of(x)
    elif isinstance(v, str):
        yield v


def is_directive_string(s):
    """validate.go's rule as the property states it: "$required" or $ + lowercase letter."""
    # ASCII only: whether "$" followed by a non-ASCII lowercase letter is reserved as well is the implementation's choice (not judged)
    return len(s) >= 2 and s[0] == '$' and 'a' <= s[1] <= 'z'


def has_marker(v):
    return any(is_directive_string(s) for s in strings_of(v))


def size(v):
    if isinstance(v, dict):
        return 1 + sum(size(x) for x in v.values())
    if isinstance(v, list):
        return 1 + sum(size(x) for x in v)
    return 1


def get_path(v, path):
    for p in path:
        v = v[p]
    return v


def set_path(root, path, new):
    if not path:
        return new
    node = root
    for p in path[:-1]:
        node = node[p]
    node[path[-1]] = new
    return root


def del_path(root, path):
    node = root
    for p in path[:-1]:
        node = node[p]
    del node[path[-1]]
    return root


def dumps(v):
    """Canonical JSON for the worker protocol: ints without '.', floats always with '.'/'e'."""
    return json.dumps(v, ensure_ascii=False, allow_nan=False)


def show(v, n=300):
    s = json.dumps(v, ensure_ascii=False, default=str)
    return s if len(s) <= n else s[:n] + '...'


def from_worker(v):
    """Worker-encoded trees: {"$go": type, "v": text} marks a Go type that has no JSON name."""
    return v


def foreign_types(v):
    """Go types other than the seven normalized ones found in a worker-encoded tree."""
    out = []
    if isinstance(v, dict):
        if set(v.keys()) == {'$go', 'v'}:
            return [v['$go']]
        for x in v.values():
            out += foreign_types(x)
    elif isinstance(v, list):
        for x in v:
            out += foreign_types(x)
    return out
