"""Executable statements of the documented rules (reference models).

Written from the property statements and docs/index.html.  Purely functional:
inputs are never modified, results never alias inputs.

merge(parent, child) -> tree, or raises Reject.  Regions the statement leaves
open are recorded in the Notes object instead of being decided:
    notes.unspec  - the statement does not say what happens; no verdict
    notes.either  - the statement does not say whether this is an error, but if
                    it is accepted the result must be the returned tree
"""
from .val import seq, clone, kind


class Reject(Exception):
    def __init__(self, why):
        Exception.__init__(self, why)
        self.why = why


class Notes:
    def __init__(self, null_policy=None):
        self.unspec = []
        self.either = []
        self.rules = set()
        # The statement is silent about a null child over an existing value.  With a
        # policy the model commits to one of the two reasonable readings ('keep' the
        # parent value / 'replace' it by null, which evaluation then drops) and records
        # that it did, so that a monitor can accept either reading but nothing else.
        self.null_policy = null_policy
        self.null_used = False

    def null_over(self, dst, what):
        if self.null_policy is None:
            self.u('null child over ' + what)
            return clone(dst) if what != 'a scalar' else None
        self.null_used = True
        pol = self.null_policy[what] if isinstance(self.null_policy, dict) else self.null_policy
        return clone(dst) if pol == 'keep' else None

    def u(self, why):
        self.unspec.append(why)

    def e(self, why):
        self.either.append(why)

    def r(self, rule):
        self.rules.add(rule)


def null_policies():
    """All readings of "null child over an existing scalar / map / list" (keep it or replace it by null)."""
    out = []
    for sc in ('replace', 'keep'):
        for mp in ('keep', 'replace'):
            for ls in ('keep', 'replace'):
                out.append({'a scalar': sc, 'a map': mp, 'a list': ls})
    return out


DIRECTIVE_KEYS = ('$delete', '$replace', '$match', '$value', '$invert', '$required')


def match(obj, pat, notes):
    """Partial (subset) matching of patterns."""
    if isinstance(pat, dict):
        if pat.get('$invert') is True:
            rest = {k: v for k, v in pat.items() if k != '$invert'}
            notes.r('match:invert')
            return not match_map(obj, rest, notes)
        if '$invert' in pat:
            notes.u('$invert with a non-true value')
        return match_map(obj, pat, notes)
    if isinstance(pat, list):
        if not isinstance(obj, list):
            return False
        for pv in pat:
            if not any(match(ov, pv, notes) for ov in obj):
                return False
        return True
    if pat is None:
        notes.u('null inside a pattern')
    return seq(obj, pat)


def match_map(obj, pat, notes):
    if not isinstance(obj, dict):
        return False
    if len(obj) == 1 and next(iter(obj)) in ('$merge', '$replace', '$encode'):
        notes.u('pattern applied to a reference/encode entry')
        return False
    for pk, pv in pat.items():
        if not match(obj.get(pk), pv, notes):
            return False
    return True


def merge(dst, src, notes):
    if isinstance(dst, dict):
        return merge_map(dst, src, notes)
    if isinstance(dst, list):
        return merge_list(dst, src, notes)
    if dst is None:
        notes.r('over-null')
        return clone(src)
    # scalar parent
    if src is None:
        return notes.null_over(dst, 'a scalar')
    if not isinstance(src, (dict, list)):
        if seq(dst, src):
            notes.r('reject:same-scalar')
            raise Reject('useless override: same scalar')
        if seq(dst, src, loose=True):
            notes.u('integer vs float of the same value')
        notes.r('scalar-replaces')
    else:
        notes.r('container-over-scalar')
    return clone(src)


def merge_map(dst, src, notes):
    if isinstance(src, dict):
        return merge_map_map(dst, src, notes)
    if src is None:
        return notes.null_over(dst, 'a map')
    if len(dst) == 0:
        notes.r('over-empty-map')
        return clone(src)
    notes.r('reject:scalar-or-list-over-map')
    raise Reject('scalar or list over a non-empty map')


def merge_map_map(dst, src, notes):
    if '$replace' in src:
        if src['$replace'] is True:
            notes.r('map:$replace')
            return {k: clone(v) for k, v in src.items() if k != '$replace'}
        notes.u('$replace with a non-true value')
    if len(src) == 0:
        notes.e('empty map over a map (no-op)')
    ret = clone(dst)
    for k, v in src.items():
        if v == '$delete' and isinstance(v, str):
            if k not in dst:
                notes.r('reject:$delete-absent-key')
                raise Reject('$delete of an absent key')
            notes.r('map:$delete')
            del ret[k]
            continue
        if k in dst:
            try:
                ret[k] = merge(dst[k], v, notes)
            except Reject:
                raise
        else:
            notes.r('map:add-key')
            ret[k] = clone(v)
    return ret


def merge_list(dst, src, notes):
    if isinstance(src, list):
        return merge_list_list(dst, src, notes)
    if src is None:
        return notes.null_over(dst, 'a list')
    notes.r('reject:scalar-or-map-over-list')
    raise Reject('scalar or map over a list')


def merge_list_list(dst, src, notes):
    if any(isinstance(x, str) and x == '$replace' for x in src):
        notes.u('string entry $replace in a list')
        return [clone(x) for x in src if not (isinstance(x, str) and x == '$replace')]
    if any(isinstance(x, dict) and '$replace' in x and x['$replace'] is not True for x in src):
        notes.u('$replace with a non-true value')
    if any(isinstance(x, dict) and x.get('$replace') is True for x in src):
        out = []
        for x in src:
            if isinstance(x, dict) and x.get('$replace') is True:
                if len(x) > 1:
                    notes.r('reject:extra-keys')
                    raise Reject('extra keys next to $replace')
                continue
            out.append(clone(x))
        notes.r('list:$replace')
        return out
    if len(src) == 0:
        notes.e('empty list over a list (no-op)')
    if any(isinstance(x, str) and x == '$required' for x in dst):
        notes.r('list:$required-stripped')
        if len(src) == 0:
            notes.u('[$required] under an empty list')
    ret = [clone(x) for x in dst if not (isinstance(x, str) and x == '$required')]
    own = [False] * len(ret)   # entries appended by this child
    for v in src:
        if not isinstance(v, dict):
            ret.append(clone(v))
            own.append(True)
            notes.r('list:append')
            continue
        if '$delete' in v:
            if len(v) > 1:
                notes.r('reject:extra-keys')
                raise Reject('extra keys next to $delete')
            pat = v['$delete']
            hits = [i for i, x in enumerate(ret) if match(x, pat, notes)]
            if not hits:
                notes.r('reject:list-$delete-no-hit')
                raise Reject('list $delete hits nothing')
            if any(own[i] for i in hits):
                notes.u('pattern hits an entry appended by the same child')
            notes.r('list:$delete' + (':multi' if len(hits) > 1 else ''))
            ret = [x for i, x in enumerate(ret) if i not in hits]
            own = [x for i, x in enumerate(own) if i not in hits]
            continue
        if '$match' in v:
            pat = v['$match']
            body = {k: x for k, x in v.items() if k != '$match'}
            if '$value' in body:
                if len(body) > 1:
                    notes.r('reject:extra-keys')
                    raise Reject('extra keys next to $value')
                val = body['$value']
                notes.r('list:$match+$value')
            else:
                val = body
                if len(body) == 0:
                    notes.u('list $match without a body')
                notes.r('list:$match')
            hits = [i for i, x in enumerate(ret) if match(x, pat, notes)]
            if not hits:
                notes.r('reject:list-$match-no-hit')
                raise Reject('list $match hits nothing')
            if any(own[i] for i in hits):
                notes.u('pattern hits an entry appended by the same child')
            if len(hits) > 1:
                notes.r('list:$match:multi')
            for i in hits:
                ret[i] = merge(ret[i], val, notes)
            continue
        ret.append(clone(v))
        own.append(True)
        notes.r('list:append')
    return ret


def fold(layers, notes):
    """Base-first fold of a single-document chain."""
    cur = clone(layers[0])
    for l in layers[1:]:
        cur = merge(cur, l, notes)
    return cur


# ---------------------------------------------------------------------------
# $output selection (C11)


def outputs(tree, both='hidden'):
    """List of output documents for one evaluated document, as a multiset
    (order is not part of the model).  both: reading for a list that carries a true and a false marker entry
    ('hidden': it is hidden, 'selected': the selection wins)."""
    outs = []
    _find_outputs(tree, outs)
    if not outs:
        outs = [tree]
    res = []
    for o in outs:
        if both == 'selected' and isinstance(o, list) and any(_is_marker_entry(x, False) for x in o):
            o = [x for x in o if not _is_marker_entry(x, False)]
        f = _filter_hidden(_strip_true(o))
        if f is not _HIDDEN:
            res.append(f)
    return res


_HIDDEN = object()


def _is_marker_entry(x, val):
    return isinstance(x, dict) and len(x) == 1 and x.get('$output') is val and '$output' in x


def _find_outputs(v, outs):
    if isinstance(v, dict):
        if v.get('$output') is True:
            outs.append(v)
        for k, x in v.items():
            _find_outputs(x, outs)
    elif isinstance(v, list):
        if any(_is_marker_entry(x, True) for x in v):
            outs.append(v)
        for x in v:
            if not (_is_marker_entry(x, True) or _is_marker_entry(x, False)):
                _find_outputs(x, outs)


def _strip_true(v):
    if isinstance(v, dict):
        return {k: _strip_true(x) for k, x in v.items() if not (k == '$output' and x is True)}
    if isinstance(v, list):
        return [_strip_true(x) for x in v if not _is_marker_entry(x, True)]
    return v


def _filter_hidden(v):
    if isinstance(v, dict):
        if v.get('$output') is False and '$output' in v:
            return _HIDDEN
        out = {}
        for k, x in v.items():
            y = _filter_hidden(x)
            if y is not _HIDDEN:
                out[k] = y
        return out
    if isinstance(v, list):
        if any(_is_marker_entry(x, False) for x in v):
            return _HIDDEN
        out = []
        for x in v:
            y = _filter_hidden(x)
            if y is not _HIDDEN:
                out.append(y)
        return out
    return v


# ---------------------------------------------------------------------------
# $required skeleton (C17)


def skeleton(v):
    """The containers leading to $required markers and the markers themselves; None if there are none."""
    if isinstance(v, dict):
        out = {}
        for k, x in v.items():
            y = skeleton(x)
            if y is not None:
                out[k] = y
        return out or None
    if isinstance(v, list):
        out = [y for y in (skeleton(x) for x in v) if y is not None]
        return out or None
    if isinstance(v, str) and v == '$required':
        return v
    return None
