"""Own serializers (independent of bkl's encoders) and independent decoders.

Writers take a logical tree and style knobs; every writer is validated in
selfcheck() against a decoder that is not bkl's before its output is trusted.
"""
import json
import re
import tomllib

import yaml

# ---------------------------------------------------------------------------
# JSON


_JSON_TOK = re.compile(r'"(?:[^"\\]|\\.)*"|-?\d+\.?\d*e[+-]?\d+')


def _json_exponents(text, rng):
    """Other legal spellings of exponent numbers: 1E5, 1e+5 (only number tokens, never inside strings)."""
    def f(m):
        t = m.group(0)
        if t.startswith('"'):
            return t
        r = rng.random()
        if r < 0.5:
            t = t.replace('e', 'E')
        return t
    return _JSON_TOK.sub(f, text)


def to_json(v, rng=None, style=None):
    style = style or (rng.choice(['compact', 'spaced', 'pretty']) if rng else 'compact')
    if rng and rng.random() < 0.5:
        v = shuffle_keys(v, rng)
    if rng and rng.random() < 0.3:
        base = json.dumps(v, ensure_ascii=rng.random() < 0.3, separators=(',', ':') if style == 'compact' else None, indent=2 if style == 'pretty' else None)
        return _json_exponents(base, rng)
    if style == 'compact':
        return json.dumps(v, ensure_ascii=False, separators=(',', ':'))
    if style == 'pretty':
        return json.dumps(v, ensure_ascii=False, indent=2)
    return json.dumps(v, ensure_ascii=False)


def json_stream(docs, rng=None):
    sep = rng.choice(['\n', '', ' \n', '\r\n', '\n\n', '\t']) if rng else '\n'
    return sep.join(to_json(d, rng) for d in docs) + (rng.choice(['\n', '', '\r\n', ' ']) if rng else '\n')


def shuffle_keys(v, rng):
    if isinstance(v, dict):
        ks = list(v.keys())
        rng.shuffle(ks)
        return {k: shuffle_keys(v[k], rng) for k in ks}
    if isinstance(v, list):
        return [shuffle_keys(x, rng) for x in v]
    return v


def parse_json_stream(text):
    dec = json.JSONDecoder()
    out = []
    i = 0
    n = len(text)
    while True:
        while i < n and text[i] in ' \t\r\n':
            i += 1
        if i >= n:
            break
        v, i = dec.raw_decode(text, i)
        out.append(v)
    return out


# ---------------------------------------------------------------------------
# YAML (writer: block / flow, quoted / plain; reader: PyYAML with a YAML 1.2 core schema)

_PLAIN_OK = re.compile(r'^[A-Za-z][A-Za-z0-9_]*$')
_RESERVED = {'true', 'false', 'null', 'yes', 'no', 'on', 'off', 'y', 'n', 'nan', 'inf'}


def fmt_float(f):
    s = repr(float(f))
    if 'e' not in s and '.' not in s and 'n' not in s:
        s += '.0'
    return s


def yaml_scalar(v, style, rng=None):
    if v is None:
        return rng.choice(['null', '~', 'Null', 'NULL']) if rng else 'null'
    if v is True:
        return rng.choice(['true', 'true', 'True', 'TRUE']) if rng and style != 'flow' else 'true'
    if v is False:
        return rng.choice(['false', 'false', 'False', 'FALSE']) if rng and style != 'flow' else 'false'
    if isinstance(v, int):
        return str(v)
    if isinstance(v, float):
        f = fmt_float(v)
        if rng and 'e' in f and rng.random() < 0.3:
            f = f.replace('e', 'E')
        return f
    return yaml_string(v, style, rng)


def yaml_string(s, style, rng=None):
    if style == 'plain' and _PLAIN_OK.match(s) and s.lower() not in _RESERVED:
        return s
    if style in ('plain', 'single') and "'" not in s and '\n' not in s and '\\' not in s and s.isprintable() and (rng is None or rng.random() < 0.5):
        return "'" + s + "'"
    return json.dumps(s, ensure_ascii=False)


def _block_ok(s):
    if '\n' not in s or s.startswith('\n') or s.startswith(' '):
        return False
    lines = s.rstrip('\n').split('\n')
    return all(l and l == l.strip(' ') and l.isprintable() for l in lines) and s.rstrip('\n') != ''


def _block_scalar(s, ind):
    n = len(s) - len(s.rstrip('\n'))
    chomp = '-' if n == 0 else ('' if n == 1 else '+')
    body = s.rstrip('\n').split('\n') + [''] * max(0, n - 1)
    pad = ' ' * (ind + 2)
    return '|' + chomp + '\n' + ''.join((pad + l if l else '') + '\n' for l in body)


_ANCH = {}


def to_yaml(v, rng=None, style=None):
    """style: 'quoted' (block, all strings double-quoted), 'plain' (block, plain/single where safe), 'flow',
    'rich' (block; multi-line strings as block scalars, repeated container subtrees as anchor + alias)."""
    style = style or (rng.choice(['quoted', 'plain', 'flow', 'rich']) if rng else 'quoted')
    if style == 'flow':
        return json.dumps(v, ensure_ascii=False) + '\n'
    _ANCH.clear()
    if style == 'rich':
        seen = {}
        for sub in _subtrees(v):
            k = json.dumps(sub, sort_keys=True)
            seen[k] = seen.get(k, 0) + 1
        n = 0
        for k, c in seen.items():
            if c > 1:
                n += 1
                _ANCH[k] = ['a%d' % n, False]
    if isinstance(v, dict) and v:
        return _yaml_map(v, 0, style, rng)
    if isinstance(v, list) and v:
        return _yaml_list(v, 0, style, rng)
    return _yaml_inline(v, style, rng) + '\n'


def _subtrees(v, top=True):
    if isinstance(v, (dict, list)) and v:
        if not top:
            yield v
        for x in (v.values() if isinstance(v, dict) else v):
            yield from _subtrees(x, False)


def _anchor(v):
    """('&name ' to emit, None) the first time, (None, '*name') afterwards, (None, None) if not anchored."""
    if not _ANCH or not isinstance(v, (dict, list)) or not v:
        return None, None
    a = _ANCH.get(json.dumps(v, sort_keys=True))
    if a is None:
        return None, None
    if a[1]:
        return None, '*' + a[0]
    a[1] = True
    return '&' + a[0], None


def _yaml_inline(v, style, rng):
    if isinstance(v, dict):
        assert not v
        return '{}'
    if isinstance(v, list):
        assert not v
        return '[]'
    return yaml_scalar(v, style, rng)


def _yaml_map(m, ind, style, rng):
    out = []
    pad = ' ' * ind
    for k, v in m.items():
        ks = yaml_string(k, style, rng)
        if (isinstance(v, dict) or isinstance(v, list)) and v:
            anc, ali = _anchor(v)
            if ali:
                out.append('%s%s: %s\n' % (pad, ks, ali))
                continue
            out.append('%s%s:%s\n' % (pad, ks, ' ' + anc if anc else ''))
            if isinstance(v, dict):
                out.append(_yaml_map(v, ind + 2, style, rng))
            else:
                out.append(_yaml_list(v, ind + 2, style, rng))
        elif style == 'rich' and isinstance(v, str) and _block_ok(v):
            out.append('%s%s: %s' % (pad, ks, _block_scalar(v, ind)))
        else:
            out.append('%s%s: %s\n' % (pad, ks, _yaml_inline(v, style, rng)))
    return ''.join(out)


def _yaml_list(l, ind, style, rng):
    out = []
    pad = ' ' * ind
    for v in l:
        anc, ali = _anchor(v)
        if ali:
            out.append('%s- %s\n' % (pad, ali))
        elif isinstance(v, dict) and v:
            out.append('%s-%s\n' % (pad, ' ' + anc if anc else ''))
            out.append(_yaml_map(v, ind + 2, style, rng))
        elif isinstance(v, list) and v:
            out.append('%s-%s\n' % (pad, ' ' + anc if anc else ''))
            out.append(_yaml_list(v, ind + 2, style, rng))
        elif style == 'rich' and isinstance(v, str) and _block_ok(v):
            out.append('%s- %s' % (pad, _block_scalar(v, ind)))
        else:
            out.append('%s- %s\n' % (pad, _yaml_inline(v, style, rng)))
    return ''.join(out)


def _noise_lines(text, rng, comment):
    """Insert comment lines between top-level lines (lines that start in column 0 and do not continue a block)."""
    if not rng or rng.random() > 0.15:
        return text
    out = []
    for l in text.split('\n'):
        if l and l[0] not in ' \t"\'' and rng.random() < 0.3 and not l.startswith(('---', '+++', '...')):
            out.append(comment + rng.choice([' note', '', ' key: value', ' [x]']))
        out.append(l)
    return '\n'.join(out)


def yaml_stream(docs, rng=None, style=None):
    parts = [to_yaml(d, rng, style) for d in docs]
    if not rng:
        return '---\n'.join(parts)
    plain = all('|' not in p and '&a' not in p for p in parts)
    text = ''
    for i, p in enumerate(parts):
        if i:
            text += rng.choice(['---\n', '---\n', '--- \n', '--- # next document\n', '...\n---\n'])
        elif rng.random() < 0.15:
            text += rng.choice(['---\n', '--- \n', '--- # first\n'])
        text += p
    if plain and style != 'flow':
        text = _noise_lines(text, rng, '#')
    if plain and rng.random() < 0.08:
        text = text.replace('\n', '\r\n')
    if rng.random() < 0.08 and text.endswith('\n') and not text.endswith('\n\n') and '|' not in text:
        text = text[:-1]
    return text


_BaseLoader = getattr(yaml, 'CSafeLoader', yaml.SafeLoader)


class CoreLoader(_BaseLoader):
    """PyYAML restricted to the YAML 1.2 core schema (PyYAML's default is YAML 1.1)."""


CoreLoader.yaml_implicit_resolvers = {}
CoreLoader.add_implicit_resolver('tag:yaml.org,2002:null', re.compile(r'^(?:~|null|Null|NULL|)$'), ['~', 'n', 'N', ''])
CoreLoader.add_implicit_resolver('tag:yaml.org,2002:bool', re.compile(r'^(?:true|True|TRUE|false|False|FALSE)$'), list('tTfF'))
CoreLoader.add_implicit_resolver('tag:yaml.org,2002:int', re.compile(r'^(?:[-+]?[0-9]+|0o[0-7]+|0x[0-9a-fA-F]+)$'), list('-+0123456789'))
CoreLoader.add_implicit_resolver('tag:yaml.org,2002:float',
                                 re.compile(r'^(?:[-+]?(?:\.[0-9]+|[0-9]+(?:\.[0-9]*)?)(?:[eE][-+]?[0-9]+)?|[-+]?\.(?:inf|Inf|INF)|\.(?:nan|NaN|NAN))$'),
                                 list('-+0123456789.'))
CoreLoader.add_implicit_resolver('tag:yaml.org,2002:merge', re.compile(r'^(?:<<)$'), ['<'])


def _core_int(loader, node):
    s = loader.construct_scalar(node)
    if s.startswith('0o'):
        return int(s[2:], 8)
    if s.startswith('0x'):
        return int(s[2:], 16)
    return int(s)


def _core_float(loader, node):
    s = loader.construct_scalar(node).lower()
    if s.endswith('.inf'):
        return float('-inf') if s.startswith('-') else float('inf')
    if s == '.nan':
        return float('nan')
    return float(s)


CoreLoader.add_constructor('tag:yaml.org,2002:int', _core_int)
CoreLoader.add_constructor('tag:yaml.org,2002:float', _core_float)


def parse_yaml_stream(text, core=True):
    return list(yaml.load_all(text, Loader=CoreLoader if core else _BaseLoader))


# ---------------------------------------------------------------------------
# TOML

_BARE = re.compile(r'^[A-Za-z0-9_-]+$')


def toml_key(k, rng=None):
    if _BARE.match(k) and (rng is None or rng.random() < 0.8):
        return k
    if rng and rng.random() < 0.3 and "'" not in k and '\n' not in k and k.isprintable():
        return "'" + k + "'"
    return json.dumps(k, ensure_ascii=False)


def toml_string(s, rng=None):
    if rng and '\n' in s and not any(l in ('---', '+++') for l in s.split('\n')) and '"' not in s and '\\' not in s and "'" not in s and all(c.isprintable() or c == '\n' for c in s) and rng.random() < 0.5:
        # multi-line basic / literal string; the newline right after the opening delimiter is trimmed
        q = '"""' if rng.random() < 0.5 else "'''"
        return q + '\n' + s + q
    if rng and rng.random() < 0.3 and "'" not in s and s.isprintable():
        return "'" + s + "'"
    r = json.dumps(s, ensure_ascii=False)
    return r.replace('\x7f', '\\u007f')


def toml_inline(v, rng=None):
    if v is True:
        return 'true'
    if v is False:
        return 'false'
    if isinstance(v, int):
        return str(v)
    if isinstance(v, float):
        return fmt_float(v)
    if isinstance(v, str):
        return toml_string(v, rng)
    if isinstance(v, list):
        return '[' + ', '.join(toml_inline(x, rng) for x in v) + ']'
    if isinstance(v, dict):
        return '{' + ', '.join('%s = %s' % (toml_key(k, rng), toml_inline(x, rng)) for k, x in v.items()) + '}'
    raise ValueError('TOML cannot express %r' % (v,))


def to_toml(v, rng=None, style=None):
    """style: 'tables' ([a.b] headers, [[x]] for lists of maps), 'inline' (everything inline), 'dotted' (a.b.c = v)."""
    assert isinstance(v, dict)
    style = style or (rng.choice(['tables', 'inline', 'dotted']) if rng else 'tables')
    out = []
    if style == 'dotted':
        _toml_dotted(v, [], out, rng)
        return ''.join(out)
    _toml_table(v, [], out, style, rng)
    return ''.join(out)


def _toml_dotted(m, path, out, rng):
    for k, x in m.items():
        p = path + [toml_key(k, rng)]
        if isinstance(x, dict) and x:
            _toml_dotted(x, p, out, rng)
        else:
            out.append('%s = %s\n' % ('.'.join(p), toml_inline(x, rng)))


def _toml_table(m, path, out, style, rng):
    later = []
    for k, x in m.items():
        if style == 'tables' and isinstance(x, dict):
            later.append((k, x, 'table'))
        elif style == 'tables' and isinstance(x, list) and x and all(isinstance(e, dict) for e in x) and (rng is None or rng.random() < 0.6):
            later.append((k, x, 'aot'))
        else:
            out.append('%s = %s\n' % (toml_key(k, rng), toml_inline(x, rng)))
    for k, x, how in later:
        p = path + [toml_key(k, rng)]
        if how == 'table':
            out.append('\n[%s]\n' % '.'.join(p))
            _toml_table(x, p, out, style, rng)
        else:
            for e in x:
                out.append('\n[[%s]]\n' % '.'.join(p))
                _toml_table(e, p, out, 'inline', rng)


def toml_stream(docs, rng=None, style=None):
    sep = rng.choice(['---\n', '+++\n']) if rng else '---\n'
    text = sep.join(to_toml(d, rng, style) for d in docs)
    if rng and '"""' not in text and "'''" not in text:
        text = _noise_lines(text, rng, '#')
        if rng.random() < 0.08:
            text = text.replace('\n', '\r\n')
    return text


_TOML_SPLIT = re.compile(r'(?m)^(?:---|\+\+\+)$')


def parse_toml_stream(text, seps=('---',)):
    pat = re.compile(r'(?m)^(?:%s)\r?$' % '|'.join(re.escape(s) for s in seps))
    return [tomllib.loads(part) for part in pat.split(text)]


# ---------------------------------------------------------------------------


def write(fmt, docs, rng=None, style=None):
    if fmt in ('json', 'jsonl', 'json-pretty'):
        return json_stream(docs, rng)
    if fmt in ('yaml', 'yml'):
        return yaml_stream(docs, rng, style)
    if fmt == 'toml':
        return toml_stream(docs, rng, style)
    raise ValueError(fmt)


def parse(fmt, text):
    if fmt in ('json', 'jsonl', 'json-pretty'):
        return parse_json_stream(text)
    if fmt in ('yaml', 'yml'):
        return parse_yaml_stream(text)
    if fmt == 'toml':
        return parse_toml_stream(text, seps=('---', '+++'))
    raise ValueError(fmt)


def toml_ok(v, root=True):
    """Can TOML express this tree? (map root, no nulls)"""
    if root and not isinstance(v, dict):
        return False
    if v is None:
        return False
    if isinstance(v, dict):
        return all(toml_ok(x, False) for x in v.values())
    if isinstance(v, list):
        return all(toml_ok(x, False) for x in v)
    if isinstance(v, float):
        return v == v and v not in (float('inf'), float('-inf'))
    if isinstance(v, int) and not isinstance(v, bool):
        return -2**63 <= v < 2**63
    return True
