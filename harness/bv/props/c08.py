"""C08 Every invocation terminates with complete output or a reported error
(process-boundary + in-process crash monitors; termination decided by the hook's logical step budget)."""
import glob
import itertools
import json
import os
import random

from ..core import scrub_env, crashed, Result, out_bytes, cli, REPO, STEP_BUDGET
from .. import gen, ser
from ..val import clone, strings_of

ID = 'C08'
SIZES = {'quick': 14000, 'thorough': 1000000}
REQUIRED_EVENTS = ['lib_runs_judged', 'cli_runs_judged', 'fault_runs_judged']
RULE = ('kinds: struct = structure-aware hostile documents (every directive at every position with arguments of every type, then tree-level '
        'mutation), 1-3 layers x 1-2 documents, evaluated in-process through to Output in a random format; bytes = arbitrary byte strings and '
        'bit-flipped / spliced / truncated seeds (generated documents, tests/* inputs, FuzzParser corpus entries) offered as .json and .toml files, '
        'YAML seeds with token-level mutations; cycle = a zoo of $merge/$replace loops of length 1-4 in map, list and string form, '
        'self-referential interpolation (also branching), a subtree merged into itself / its ancestor / descendant, cross-document loops - all '
        'must end in an error; pgraph = every $parent graph over <= 3 files (each file\'s parent set any subset incl. itself; thorough: random '
        'graphs over <= 5) - cyclic must fail, acyclic must succeed; tools = bkl/bkld/bkli/bklr binaries on the above; fault = stdout and -o '
        'on /dev/full. Monitors: exit status in {0,1}; 0 => stdout decodes completely in the selected format and equals the library\'s Output; '
        'non-zero => empty stdout and a diagnostic; never panic / fatal error / signal / step budget (2,000,000 hook steps) exceeded. '
        'Non-trivial = input contains a directive or is not valid in its format; distinct = distinct inputs.')
ASSUMPTIONS = ['$repeat counts <= 6 and small trees keep legitimate evaluations far below the step budget (largest count observed is in the evidence)',
               'memory/time of legitimately huge expansions, wording of diagnostics and the empty file left by a failed -o are not judged']

KEYS = ['a', 'b', 'c', 'd']
DIRS = ['$merge', '$replace', '$match', '$value', '$delete', '$invert', '$required', '$output', '$repeat', '$encode', '$decode', '$parent', '$path']
SVALS = ['$merge:a', '$merge:a.b', '$merge:', '$replace:a', '$replace:b.c', '$"{a}"', '$"{a}{b}"', '$"x{a.b}y"', '$"{$env:HOME}"', '$"{$repeat}"', '$"', '$"{', '$"{}"', '$env:HOME',
         '$env:NOPE', '$env:', '$repeat', '$repeat:x', '$required', '$delete', '$replace', '$output', 'plain', '', 'a', 'a.b', '$$x', '$', '$merge:[a, b]', '$merge:{a: 1}', '$merge:[',
         '$"{a"', '$"}{"', 'json', 'base64', 'join:,', 'tolist:=', 'flags', 'yaml', 'toml']
ARGS = [None, True, False, 0, 1, 2, 3, -1, 6, 1.5, [], ['a'], ['a', 'b'], [1], [{'a': 1}, 'b'], [{}], {}, {'a': 1}, {'$match': {}, '$path': 'a'}, {'$match': {'a': 1}}, {'$merge': 'a'},
        {'a': 2, 'b': 3}, [['a']], {'$path': 'a'}, [None], ['json', 'base64'], ['tolist:=', 'join:,'], [5]]
LENTRIES = [{'$merge': 'a'}, {'$merge': 'b.c'}, {'$replace': 'a'}, {'$output': True}, {'$output': False}, {'$replace': True}, {'$delete': 1}, {'$delete': {'a': 1}}, {'$match': {}, 'x': 1},
            {'$match': {'a': 1}, '$value': 2}, {'$repeat': 2, 'i': '$repeat'}, {'$repeat': -1, 'i': '$repeat'}, {'$repeat': -2}, {'$encode': 'json'}, {'$encode': 'join:,'}, '$required', '$replace', {'$repeat': 2}, {'$match': None}, {'$merge': ['a']}]


def hval(rng, depth):
    r = rng.random()
    if r < 0.3:
        return rng.choice(SVALS)
    if r < 0.5:
        return clone(rng.choice(ARGS))
    if r < 0.6:
        return gen.scalar(rng)
    return htree(rng, depth - 1)


def htree(rng, depth):
    if depth <= 0:
        return rng.choice(SVALS) if rng.random() < 0.5 else gen.scalar(rng, nulls=True)
    if rng.random() < 0.6:
        out = {}
        for _ in range(rng.randint(0, 4)):
            k = rng.choice(DIRS) if rng.random() < 0.35 else (rng.choice(KEYS) if rng.random() < 0.8 else rng.choice(SVALS))
            out[k] = hval(rng, depth)
            if k == '$repeat' and rng.random() < 0.7:
                out[k] = rng.choice([0, 1, 2, 3, {'a': 2}, {'a': 2, 'b': 2}, 6, -1, -2, {'a': -1}, {'a': 1, 'b': -3}])
        return out
    out = []
    for _ in range(rng.randint(0, 4)):
        out.append(clone(rng.choice(LENTRIES)) if rng.random() < 0.35 else hval(rng, depth))
    return out


def bound_repeat(v):
    """Keep legitimately large outputs out: every number that could be a repeat count is <= 6."""
    if isinstance(v, dict):
        for k in list(v.keys()):
            x = v[k]
            if k == '$repeat':
                if isinstance(x, (int, float)) and not isinstance(x, bool) and abs(x) > 6:
                    v[k] = 6
                elif isinstance(x, dict):
                    for kk, xx in x.items():
                        if isinstance(xx, (int, float)) and not isinstance(xx, bool) and abs(xx) > 3:
                            x[kk] = 3
                    while len(x) > 3:
                        x.pop(next(iter(x)))
            bound_repeat(v[k])
    elif isinstance(v, list):
        for x in v:
            bound_repeat(x)
    return v


def mutate_tree(rng, t, n=2):
    from ..val import walk, set_path
    for _ in range(n):
        nodes = [p for p, x in walk(t)]
        if not nodes:
            break
        p = rng.choice(nodes)
        new = hval(rng, 2)
        if not p:
            t = new if isinstance(new, (dict, list)) else t
        else:
            try:
                set_path(t, p, new)
            except Exception:
                pass
    return t


_SEEDS = None


def go_unquote(s):
    out = bytearray()
    i = 0
    while i < len(s):
        c = s[i]
        if c != '\\':
            out += c.encode('utf-8')
            i += 1
            continue
        i += 1
        c = s[i]
        if c == 'x':
            out.append(int(s[i + 1:i + 3], 16))
            i += 3
        elif c == 'u':
            out += chr(int(s[i + 1:i + 5], 16)).encode('utf-8')
            i += 5
        elif c == 'U':
            out += chr(int(s[i + 1:i + 9], 16)).encode('utf-8', 'replace')
            i += 9
        elif c in '01234567':
            out.append(int(s[i:i + 3], 8) & 255)
            i += 3
        else:
            out += {'n': b'\n', 't': b'\t', 'r': b'\r', 'a': b'\a', 'b': b'\b', 'f': b'\f', 'v': b'\v', '\\': b'\\', '"': b'"', "'": b"'"}.get(c, c.encode())
            i += 1
    return bytes(out)


def seeds():
    """(ext, bytes) seeds from the repository: tests/*/ inputs and FuzzParser corpus entries."""
    global _SEEDS
    if _SEEDS is not None:
        return _SEEDS
    out = []
    for p in sorted(glob.glob(os.path.join(REPO, 'tests', '*', '*.*'))):
        ext = p.rsplit('.', 1)[-1]
        if ext in ('json', 'toml', 'yaml', 'yml', 'jsonl'):
            try:
                out.append((ext, open(p, 'rb').read()))
            except OSError:
                pass
    files = sorted(glob.glob(os.path.join(REPO, 'testdata', 'fuzz', 'FuzzParser', '*')))
    r = random.Random(7)
    for p in r.sample(files, min(1500, len(files))):
        try:
            lines = open(p, encoding='utf-8', errors='replace').read().split('\n')
            vals = []
            for l in lines[1:5]:
                q = l[l.index('("') + 2: l.rindex('")')]
                vals.append(go_unquote(q))
            for nm, content in ((vals[0], vals[1]), (vals[2], vals[3])):
                ext = nm.decode('utf-8', 'replace').rsplit('.', 1)[-1]
                if ext in ('json', 'toml', 'yaml', 'yml', 'jsonl') and content:
                    out.append((ext, content))
        except Exception:
            continue
    _SEEDS = out
    return out


def mutate_bytes(rng, b):
    b = bytearray(b)
    for _ in range(rng.randint(1, 4)):
        r = rng.random()
        if not b:
            b += bytes([rng.randrange(256)])
        elif r < 0.3:
            b[rng.randrange(len(b))] ^= 1 << rng.randrange(8)
        elif r < 0.5:
            i = rng.randrange(len(b))
            del b[i:i + rng.randint(1, 8)]
        elif r < 0.7:
            i = rng.randrange(len(b))
            j = rng.randrange(len(b))
            b[i:i] = b[j:j + rng.randint(1, 12)]
        elif r < 0.8:
            b = b[:rng.randrange(len(b) + 1)]
        else:
            i = rng.randrange(len(b) + 1)
            b[i:i] = rng.choice([b'{', b'}', b'[', b']', b'"', b':', b',', b'\n', b'---\n', b'$merge', b'$repeat', b'null', b'=', b'\\', b'\xff', b'\x00', b'1e999', b'-', b'&a ', b'*a', b'<<: '])
    return bytes(b)


def too_big_repeat(data):
    import re
    for m in re.finditer(rb'repeat[^0-9\n]{0,12}([0-9][0-9_]*)', data):
        try:
            if int(m.group(1).replace(b'_', b'')[:12] or b'0') > 6:
                return True
        except ValueError:
            return True
    return b'e9' in data or b'E9' in data or b'e+' in data


FORMATS = ['json', 'yaml', 'toml', 'json-pretty', 'jsonl', 'yml']


def gen_case(rng, i, tier):
    r = i % 20
    if r < 11:
        nl = rng.choice([1, 1, 2, 3])
        layers = []
        for li in range(nl):
            docs = []
            for _ in range(rng.choice([1, 1, 2])):
                if rng.random() < 0.3:
                    d = gen.evaldoc(rng, 0, 1, set())
                    d = mutate_tree(rng, d, rng.randint(1, 3))
                else:
                    d = htree(rng, rng.choice([2, 3, 4]))
                    if rng.random() < 0.4:
                        d = mutate_tree(rng, d, 2)
                docs.append(bound_repeat(d))
            layers.append(docs)
        return {'kind': 'struct', 'layers': layers, 'fmt': rng.choice(FORMATS), 'files': i % 7 == 0, 'tools': i % 40 == 0}
    if r < 16:
        sd = seeds()
        if rng.random() < 0.15 or not sd:
            ext = rng.choice(['json', 'toml'])
            data = bytes(rng.randrange(256) for _ in range(rng.randint(0, 40))) if rng.random() < 0.5 else ''.join(rng.choice('{}[]":,.-=$ab01 \n#\'\\') for _ in range(rng.randint(0, 60))).encode()
        else:
            ext, data = rng.choice(sd)
            if ext in ('yaml', 'yml'):
                # token-level mutations only
                toks = data.split(b' ')
                for _ in range(rng.randint(1, 3)):
                    if toks:
                        j = rng.randrange(len(toks))
                        toks[j] = rng.choice([b'$merge:a', b'&x', b'*x', b'<<:', b'-', b'?', b'|', b'>', b'!!int', b'{', b']', b'"', b'$repeat:', b'---\n', toks[rng.randrange(len(toks))]])
                data = b' '.join(toks)
            else:
                data = mutate_bytes(rng, data)
        import base64
        return {'kind': 'bytes', 'ext': ext if ext not in ('jsonl',) else 'json', 'b64': base64.b64encode(data).decode(), 'fmt': rng.choice(FORMATS), 'tools': i % 10 == 0}
    if r < 19:
        return gen_cycle(rng)
    return gen_pgraph(rng, 5 if tier == 'thorough' else 4)


FORMS = ['map-merge', 'map-replace', 'str-merge', 'str-replace', 'list-merge', 'list-replace', 'map-merge-sib']


def ref(form, target):
    if form == 'map-merge':
        return {'$merge': target}
    if form == 'map-merge-sib':
        return {'$merge': target, 'sib': 1}
    if form == 'map-replace':
        return {'$replace': target}
    if form == 'str-merge':
        return '$merge:' + target
    if form == 'str-replace':
        return '$replace:' + target
    if form == 'list-merge':
        return [{'$merge': target}]
    return [{'$replace': target}]


def gen_cycle(rng):
    kind = rng.choice(['loop', 'loop', 'loop-nested', 'interp', 'interp-branch', 'self', 'ancestor', 'branch', 'cross'])
    if kind in ('loop', 'loop-nested'):
        n = rng.randint(1, 4)
        d = {}
        for k in range(n):
            f = rng.choice(FORMS)
            tgt = 'k%d' % ((k + 1) % n)
            v = ref(f, tgt if kind == 'loop' else tgt + '.s')
            d['k%d' % k] = v if kind == 'loop' else {'s': v, 'p': 1}
        if rng.random() < 0.3:
            d['other'] = gen.tree(rng, 2, 2)
        docs = [d]
    elif kind == 'interp':
        n = rng.randint(1, 3)
        docs = [{('k%d' % k): '$"%s{k%d}"' % (rng.choice(['', 'x']), (k + 1) % n) for k in range(n)}]
    elif kind == 'interp-branch':
        docs = [{'a': rng.choice(['$"{a}{a}"', '$"{b}-{a}-{a}"', '$"{b}{b}"']), 'b': rng.choice(['v', '$"{a}?{a}"'])}]
        if docs[0]['a'] == '$"{b}{b}"' and docs[0]['b'] == 'v':
            docs[0]['b'] = '$"{a}{a}"'
    elif kind == 'self':
        docs = [rng.choice([{'a': {'$merge': 'a'}}, {'a': {'x': 1, '$merge': 'a'}}, {'a': '$merge:a'}, {'a': {'$replace': 'a'}}, {'a': [{'$merge': 'a'}]}, {'a': [{'$replace': 'a'}, 1]}, {'a': [{'$merge': 'a'}, {'$merge': 'a'}]},
                            {'a': {'b': '$replace:a.b'}}, {'a': {'$merge': ['a']}}])]
    elif kind == 'ancestor':
        docs = [rng.choice([{'a': {'b': {'$merge': 'a'}}}, {'a': {'a': 1, '$merge': []}}, {'a': {'b': {'c': {'$merge': 'a.b'}}}}, {'a': {'b': '$merge:a'}}, {'a': {'b': [{'$merge': 'a'}]}},
                            {'x': {'y': {'$replace': 'x'}}}, {'a': {'b': {'$merge': 'a', 'k': 1}, 'c': 2}}, {'$merge': 'a', 'a': {'b': {'$merge': 'a'}}},
                            {'a': {'b': [{'$merge': 'a', 'k': 1}]}}, {'svc': {'sidecars': [{'name': 'proxy', '$merge': 'svc'}, 1]}}, {'a': [[{'x': 1, '$merge': 'a'}]]},
                            {'a': {'l': [{'m': {'$merge': 'a', 'k': 1}}]}}, {'a': {'matrix': [[{'$merge': 'a', 'y': 1}]]}}, {'a': {'m': [[[{'k': {'$merge': 'a', 'y': 1}}]]]}},
                            {'a': {'m': [1, [2, [{'$merge': 'a.m', 'y': 1}]]]}}])]
    elif kind == 'branch':
        docs = [rng.choice([{'c': {'a': {'$merge': 'c'}, 'c': {'$merge': 'c', 'a': 'q'}}}, {'c': {'a': '$merge:c', 'b': '$merge:c'}}, {'p': {'a': {'$merge': 'q'}, 'b': {'$merge': 'q'}}, 'q': {'a': {'$merge': 'p'}, 'b': {'$merge': 'p'}}},
                            {'l': [{'$merge': 'm'}, {'$merge': 'm'}], 'm': [{'$merge': 'l'}, {'$merge': 'l'}]}, {'a': {'$replace': 'b'}, 'b': {'x': {'$replace': 'a'}, 'y': {'$replace': 'a'}}}])]
    else:
        docs = [{'name': 'd0', 'h': {'$merge': {'$match': {'name': 'd1'}, '$path': 't'}}}, {'name': 'd1', 't': rng.choice([{'$merge': {'$match': {'name': 'd0'}, '$path': 'h'}}, {'x': {'$replace': [{'name': 'd0'}, 'h']}}])}]
    return {'kind': 'cycle', 'sub': kind, 'layers': [docs], 'fmt': 'json', 'tools': rng.random() < 0.25, 'files': rng.random() < 0.4}


def gen_pgraph(rng, maxn):
    n = rng.randint(2, maxn)
    edges = [[j for j in range(n) if rng.random() < 0.35] for _ in range(n)]
    return {'kind': 'pgraph', 'n': n, 'edges': edges}


def fixed_cases(tier):
    out = []
    # every $parent graph over <= 3 files
    for n in (1, 2, 3):
        subsets = [list(s) for k in range(n + 1) for s in itertools.combinations(range(n), k)]
        for combo in itertools.product(subsets, repeat=n):
            out.append({'kind': 'pgraph', 'n': n, 'edges': [list(c) for c in combo]})
    r = random.Random(5)
    for _ in range(150):
        out.append(gen_cycle(r))
    for t in ('bkl', 'bkl-o', 'bkld', 'bkli', 'bklr'):
        out.append({'kind': 'fault', 'tool': t})
    # read errors injected by strace into the reads of one layer file (first read, or the read after the data)
    for t in ('bkl', 'bkld', 'bkli', 'bklr', 'catb'):
        for target in ('lower', 'top'):
            for when in (1, 2):
                out.append({'kind': 'fault', 'tool': t, 'inject': 'read-eio', 'target': target, 'when': when})
    for odd in FSODD:
        out.append({'kind': 'fsodd', 'odd': odd})
    import base64
    for y in (b'a: &anchor\n  <<: *anchor\n', b'a: &x\n  - *x\n', b'a: &x\n  b: &y\n    c: *x\n', b'&r [*r]\n', b'a: &x {k: *x}\n', b'x: &a\n  <<: [*a]\n'):
        out.append({'kind': 'bytes', 'ext': 'yaml', 'b64': base64.b64encode(y).decode(), 'fmt': 'json', 'tools': True})
    for d in ({'$repeat': -1, 'a': 1}, {'$repeat': {'a': -1, 'b': 2}, 'x': 1}, {'l': [{'$repeat': -1, 'i': 1}]}, {'m': {'k': {'$repeat': -2, 'i': 1}}}, [{'$repeat': -1}, 1], {'$repeat': 0, 'a': 1}, [{'$repeat': 0}, 1], {'$repeat': 1, 'a': 1}, {'$repeat': {'a': 0}, 'b': 1}, {'$output': False, 'a': 1}, {'$merge:a': 1, 'a': 5}, {'$"{a}"': 1, 'a': 5}, {'$repeat': 2, '$repeat2': 1}, {'a': {'$repeat': 2, 'k': 1}}, {'$env:HOME': {'$repeat': 1}}, {'k': {'$repeat': 1, '$value': 2}}):
        out.append({'kind': 'struct', 'layers': [[d]], 'fmt': 'json', 'files': True, 'tools': True})
    # embedded documents at the edges: empty, blank, several documents, a lone separator, syntax errors
    for f in ('json', 'jsonl', 'yaml', 'yml', 'toml', 'json-pretty'):
        for txt in ('', ' ', '\n', '---', '---\n---\n', '{}', '{} {}', '[', '"', 'a: 1\n---\nb: 2\n', 'null', '\x00'):
            out.append({'kind': 'struct', 'layers': [[{'r': {'$decode': f, '$value': txt}, 'keep': 1}]], 'fmt': 'json', 'files': False, 'tools': False})
    for enc in ('json', 'yaml', 'toml', 'base64', 'sha256', 'flags', 'values', 'flatten', 'join', 'tolist:=', 'prefix:x'):
        for val in (None, [], {}, '', [[]], [None], {'a': None}, 0, False):
            out.append({'kind': 'struct', 'layers': [[{'r': {'$encode': enc, '$value': val}, 'keep': 1}]], 'fmt': 'json', 'files': False, 'tools': False})
    return out


def shrink(case):
    if case['kind'] != 'struct':
        return
    from ..shrink import shrink_tree
    layers = case['layers']
    if len(layers) > 1:
        yield dict(case, layers=layers[:-1])
        yield dict(case, layers=layers[1:])
    for li in range(len(layers)):
        if len(layers[li]) > 1:
            for di in range(len(layers[li])):
                l2 = clone(layers)
                del l2[li][di]
                yield dict(case, layers=l2)
        for di, d in enumerate(layers[li]):
            for t in shrink_tree(d):
                l2 = clone(layers)
                l2[li][di] = t
                yield dict(case, layers=l2)


def reachable_cycle(edges, start=0):
    color = {}

    def dfs(u):
        color[u] = 1
        for v in edges[u]:
            if color.get(v) == 1:
                return True
            if v not in color and dfs(v):
                return True
        color[u] = 2
        return False
    return dfs(start)


BAD_MARKS = (b'panic:', b'fatal error:', b'goroutine ', b'VERIF-STEP-BUDGET', b'runtime error', b'SIGSEGV')


def judge_cli(res, r, what, fmt=None, must_fail=False, must_ok=False, detail=None):
    """Process-boundary monitor. Returns False after recording a violation."""
    detail = detail or {}
    err = r.err or b''
    if r.timeout:
        res.violate('hang', '%s: wall-clock watchdog fired (to be confirmed)' % what, **detail)
        return False
    if r.rc == 97 or b'VERIF-STEP-BUDGET' in err:
        res.violate('hang', '%s exceeded the step budget' % what, stderr=err[-300:].decode('utf-8', 'replace'), **detail)
        return False
    if crashed(r.rc, err):
        res.violate('crash', '%s died: rc=%s %s' % (what, r.rc, err[-400:].decode('utf-8', 'replace')), **detail)
        return False
    if r.rc != 0:
        if r.out:
            res.violate('partial', '%s failed but wrote %d bytes to stdout' % (what, len(r.out)), stdout=r.out[:300].decode('utf-8', 'replace'), **detail)
            return False
        if not err.strip():
            res.violate('silent', '%s exited %s without a diagnostic' % (what, r.rc), **detail)
            return False
        if must_ok:
            res.violate('spurious', '%s failed: %s' % (what, err[-300:].decode('utf-8', 'replace')), **detail)
            return False
    else:
        if must_fail:
            res.violate('accepted', '%s succeeded but must report an error' % what, stdout=r.out[:300].decode('utf-8', 'replace'), **detail)
            return False
        if fmt:
            try:
                ser.parse(fmt, r.out.decode('utf-8'))
            except Exception as e:
                res.violate('partial', '%s exit 0 but stdout is not complete %s: %s' % (what, fmt, e), stdout=r.out[:300].decode('utf-8', 'replace'), **detail)
                return False
    res.ev('cli_runs_judged')
    return True


def judge_lib(res, resp, what, must_fail=False, detail=None):
    detail = detail or {}
    if resp is None:
        died = res.detail.get('worker_died', {})
        if died.get('hang'):
            res.violate('hang', '%s: in-process evaluation hit the wall-clock watchdog' % what, **detail)
        else:
            res.violate('crash', '%s: worker process died: status=%s %s' % (what, died.get('status'), (died.get('stderr_tail') or '')[-400:]), **detail)
        return False
    for r in resp['results']:
        if r.get('budget'):
            res.violate('hang', '%s exceeded the step budget (%d steps)' % (what, resp['steps']), **detail)
            return False
        if r.get('panic'):
            res.violate('crash', '%s panicked: %s' % (what, r['panic'][:400]), **detail)
            return False
    failed = any(r['err'] is not None for r in resp['results'])
    if must_fail and not failed:
        res.violate('accepted', '%s succeeded but must report an error' % what, out=resp['results'][-1].get('out'), **detail)
        return False
    res.ev('lib_runs_judged')
    return True


def write_layers(d, layers, fmt_pref, rng):
    """Layer files a.<ext>, a.l1.<ext> ...; returns the top file name."""
    name = 'a'
    top = None
    for li, docs in enumerate(layers):
        if li:
            name += '.l%d' % li
        fmt = fmt_pref
        if fmt == 'toml' and not all(ser.toml_ok(x) for x in docs):
            fmt = 'json'
        if fmt in ('yaml', 'yml') and any(not isinstance(x, (dict, list)) for x in docs):
            fmt = 'json'
        try:
            text = ser.write(fmt, docs, None, 'quoted' if fmt in ('yaml', 'yml') else None)
        except Exception:
            fmt = 'json'
            text = ser.write('json', docs)
        top = '%s.%s' % (name, fmt)
        with open(os.path.join(d, top), 'w') as f:
            f.write(text)
    return top


def check_case(ctx, case):
    res = Result()
    k = case['kind']
    res.labels.add('kind:' + k)
    if k in ('struct', 'cycle'):
        return check_struct(ctx, case, res)
    if k == 'bytes':
        return check_bytes(ctx, case, res)
    if k == 'pgraph':
        return check_pgraph(ctx, case, res)
    if k == 'fsodd':
        return check_fsodd(ctx, case, res)
    return check_fault(ctx, case, res)


def check_struct(ctx, case, res):
    layers = case['layers']
    must_fail = case['kind'] == 'cycle'
    if must_fail:
        res.labels.add('cycle:' + case['sub'])
    res.nontrivial = any(s.startswith('$') for l in layers for d in l for s in strings_of(d))
    ops = []
    prev = []
    for li, docs in enumerate(layers):
        cur = []
        for di, d in enumerate(docs):
            pid = 'L%dD%d' % (li, di)
            ops.append({'op': 'merge_doc', 'id': pid, 'parents': prev, 'data': d})
            cur.append(pid)
        prev = cur
    ops.append({'op': 'output', 'format': case['fmt']})
    ops.append({'op': 'output_docs'})
    resp = ctx.call(ops, res)
    if not judge_lib(res, resp, 'library evaluation', must_fail, {'layers': layers}):
        return res
    lib_ok = all(r['err'] is None for r in resp['results'])
    res.labels.add('lib:' + ('ok' if lib_ok else 'error'))
    if lib_ok and case['fmt'] in ('json', 'jsonl', 'json-pretty'):
        try:
            ser.parse('json', out_bytes(resp['results'][-2]).decode('utf-8'))
        except Exception as e:
            return res.violate('partial', 'library output is not complete JSON: %s' % e, layers=layers)
    if case.get('files') or case.get('tools'):
        rng = random.Random(json.dumps(layers, sort_keys=True, default=str))
        d = ctx.casedir()
        try:
            inf = rng.choice(['json', 'yaml', 'toml'])
            top = write_layers(d, layers, inf, rng)
            of = case['fmt'] if case['fmt'] in ('json', 'yaml', 'toml', 'json-pretty') else 'json'
            r = cli([ctx.bin('bkl'), '-f', of, top], cwd=d)
            res.execs += 1
            vals = resp['results'][-1].get('values') if lib_ok else None
            # TOML cannot express a non-map document; what bkl writes for one is not judged
            pf = of if (of != 'toml' or (vals is not None and all(isinstance(x, dict) for x in vals))) else None
            if not judge_cli(res, r, 'bkl', pf, must_fail=must_fail, detail={'layers': layers, 'file_format': inf}):
                return res
            # file-based library run must agree with the binary on status, and on bytes when both succeed
            resp2 = ctx.call([{'op': 'merge_layers', 'path': os.path.join(d, top)}, {'op': 'output', 'format': of}], res)
            if not judge_lib(res, resp2, 'library evaluation from files', must_fail, {'layers': layers}):
                return res
            lib2_ok = all(x['err'] is None for x in resp2['results'])
            if lib2_ok != (r.rc == 0) or (lib2_ok and out_bytes(resp2['results'][-1]) != r.out):
                return res.violate('partial', 'bkl binary and library disagree on the same files (rc=%s, library %s)' % (r.rc, 'ok' if lib2_ok else 'error'), layers=layers,
                                   stdout=r.out[:300].decode('utf-8', 'replace'), stderr=r.err[-200:].decode('utf-8', 'replace'))
            if case.get('tools'):
                for tool, argv in (('bklr', [top]), ('bkld', [top, top]), ('bkli', [top, top])):
                    r2 = cli([ctx.bin(tool), '-f', 'json'] + argv, cwd=d)
                    res.execs += 1
                    if not judge_cli(res, r2, tool, 'json', detail={'layers': layers, 'file_format': inf}):
                        return res
                # the wrapper (bklb as "catb": evaluate the argument, then run cat on the result): complete output and status 0, or nothing
                # on stdout and a non-zero status - in particular it fails whenever the evaluation fails
                os.symlink(ctx.bin('bklb'), os.path.join(d, 'catb'))
                os.makedirs(os.path.join(d, 'wtmp'), exist_ok=True)
                r3 = cli([os.path.join(d, 'catb'), top], cwd=d, env=scrub_env({'TMPDIR': os.path.join(d, 'wtmp')}))
                res.execs += 1
                ext = top.rsplit('.', 1)[-1]
                allmaps = vals is not None and all(isinstance(x, dict) for x in vals)        # TOML cannot express a non-map document (not judged)
                wf = ext if ext in ('json', 'yaml', 'toml') and (ext != 'toml' or allmaps) else None
                if not judge_cli(res, r3, 'bklb (as catb)', wf, must_fail=(r.rc != 0), detail={'layers': layers, 'file_format': inf}):
                    return res
                if r.rc == 0 and r3.rc != 0:
                    return res.violate('spurious', 'bklb fails on an input that bkl evaluates: %s' % r3.err[-300:].decode('utf-8', 'replace'), layers=layers)
                res.ev('wrapper_runs_judged')
        finally:
            ctx.cleanup_case(d)
    return res


def check_bytes(ctx, case, res):
    import base64
    data = base64.b64decode(case['b64'])
    if too_big_repeat(data):
        return res.skip('possible large $repeat count / exponent in mutated bytes')
    ext = case['ext']
    res.labels.add('ext:' + ext)
    d = ctx.casedir()
    try:
        path = os.path.join(d, 'in.' + ext)
        with open(path, 'wb') as f:
            f.write(data)
        try:
            ser.parse(ext, data.decode('utf-8'))
            res.labels.add('input:valid-' + ext)
        except Exception:
            res.labels.add('input:invalid-' + ext)
        res.nontrivial = True
        resp = ctx.call([{'op': 'merge_layers', 'path': path}, {'op': 'output', 'format': case['fmt']}], res)
        if not judge_lib(res, resp, 'library on byte input', False, {'ext': ext, 'b64': case['b64']}):
            return res
        if case.get('tools'):
            of = case['fmt'] if case['fmt'] in ('json', 'yaml', 'toml', 'json-pretty') else 'json'
            r = cli([ctx.bin('bkl'), '-f', of, 'in.' + ext], cwd=d)
            res.execs += 1
            if not judge_cli(res, r, 'bkl', of if of != 'toml' else None, detail={'ext': ext, 'b64': case['b64']}):
                return res
            lib_ok = all(x['err'] is None for x in resp['results'])
            if (r.rc == 0) != lib_ok and case['fmt'] == of:
                return res.violate('partial', 'bkl binary (rc=%s) and library (%s) disagree on byte input' % (r.rc, 'ok' if lib_ok else 'error'), ext=ext, b64=case['b64'])
            for tool, argv in (('bklr', ['in.' + ext]), ('bkld', ['in.' + ext, 'in.' + ext]), ('bkli', ['in.' + ext, 'in.' + ext])):
                r2 = cli([ctx.bin(tool), '-f', 'json'] + argv, cwd=d)
                res.execs += 1
                if not judge_cli(res, r2, tool, 'json', detail={'ext': ext, 'b64': case['b64']}):
                    return res
    finally:
        ctx.cleanup_case(d)
    return res


def check_pgraph(ctx, case, res):
    n, edges = case['n'], case['edges']
    d = ctx.casedir()
    try:
        for i in range(n):
            doc = {'trace': ['f%d' % i], 'k%d' % i: i}
            ps = ['f%d' % j for j in edges[i]]
            doc['$parent'] = False if not ps else (ps[0] if len(ps) == 1 and i % 2 == 0 else ps)
            with open(os.path.join(d, 'f%d.%s' % (i, ['yaml', 'json', 'toml'][i % 3])), 'w') as f:
                f.write(ser.write(['yaml', 'json', 'toml'][i % 3], [doc], None, 'quoted'))
        cyc = reachable_cycle(edges, 0)
        res.nontrivial = True
        res.labels.add('pgraph:' + ('cyclic' if cyc else 'acyclic'))
        res.labels.add('pgraph:n=%d' % n)
        r = cli([ctx.bin('bkl'), '-f', 'json', 'f0.yaml'], cwd=d, budget=3000)
        res.execs += 1
        # diamonds load a file twice; each copy only adds to lists / repeats the same keys, which is a useless override -> allowed to fail
        diamond = False
        seen = set()

        def walk(u, path):
            nonlocal diamond
            for v in edges[u]:
                if v in path:
                    continue
                if v in seen:
                    diamond = True
                seen.add(v)
                walk(v, path | {v})
        if not cyc:
            walk(0, {0})
        if not judge_cli(res, r, 'bkl on $parent graph', 'json', must_fail=cyc, must_ok=(not cyc and not diamond), detail={'n': n, 'edges': edges}):
            return res
        resp = ctx.call([{'op': 'merge_layers', 'path': os.path.join(d, 'f0.yaml')}, {'op': 'output', 'format': 'json'}], res, budget=3000)
        judge_lib(res, resp, 'library on $parent graph', cyc, {'n': n, 'edges': edges})
    finally:
        ctx.cleanup_case(d)
    return res


FSODD = ['symlink-to-dotless', 'symlink-to-dotless-child', 'input-no-extension', 'input-is-directory', 'empty-file', 'dangling-symlink', 'symlink-loop', 'parent-is-directory',
         'only-dots-name', 'unreadable', 'whitespace-only', 'parent-dotless', 'bom', 'symlink-self-parent', 'symlink-self-parent-3', 'big-then-fail-yaml', 'big-then-fail-json',
         'big-then-fail-toml', 'big-ok']


def check_fsodd(ctx, case, res):
    """Odd but possible directory contents: the tools must report an error (or succeed), never crash."""
    odd = case['odd']
    d = ctx.casedir()
    try:
        def w(name, text):
            with open(os.path.join(d, name), 'w') as f:
                f.write(text)
        inp = 'app.yaml'
        if odd == 'symlink-to-dotless':
            w('settings', 'a: 1\n')
            os.symlink('settings', os.path.join(d, 'app.yaml'))
        elif odd == 'symlink-to-dotless-child':
            w('settings', 'a: 1\n')
            os.symlink('settings', os.path.join(d, 'app.yaml'))
            w('app.prod.yaml', 'b: 2\n')
            inp = 'app.prod.yaml'
        elif odd == 'input-no-extension':
            w('app', 'a: 1\n')
            inp = 'app'
        elif odd == 'input-is-directory':
            os.makedirs(os.path.join(d, 'app.yaml'))
        elif odd == 'empty-file':
            w('app.yaml', '')
        elif odd == 'whitespace-only':
            w('app.yaml', ' \n\n')
        elif odd == 'dangling-symlink':
            os.symlink('nowhere.yaml', os.path.join(d, 'app.yaml'))
        elif odd == 'symlink-loop':
            os.symlink('b.yaml', os.path.join(d, 'app.yaml'))
            os.symlink('app.yaml', os.path.join(d, 'b.yaml'))
        elif odd == 'parent-is-directory':
            os.makedirs(os.path.join(d, 'app.json'))
            w('app.prod.yaml', 'b: 2\n')
            inp = 'app.prod.yaml'
        elif odd == 'only-dots-name':
            w('...yaml', 'a: 1\n')
            inp = '...yaml'
        elif odd == 'unreadable':
            w('app.yaml', 'a: 1\n')
            os.chmod(os.path.join(d, 'app.yaml'), 0)
        elif odd == 'parent-dotless':
            w('app.yaml', '$parent: settings\na: 1\n')
            w('settings', 'b: 1\n')
        elif odd == 'bom':
            w('app.yaml', '\ufeffa: 1\n')
        elif odd == 'symlink-self-parent':
            w('app.b.yaml', 'x: 1\n')
            os.symlink('app.b.yaml', os.path.join(d, 'app.yaml'))       # app.b.yaml inherits from app.*, which is itself
            inp = 'app.b.yaml'
        elif odd == 'symlink-self-parent-3':
            w('app.b.c.yaml', 'x: 1\n')
            os.symlink('app.b.c.yaml', os.path.join(d, 'app.b.yaml'))
            w('app.yaml', 'y: 1\n')
            inp = 'app.b.c.yaml'
        elif odd.startswith('big-'):
            big = 'x' * 150000
            ext = odd.rsplit('-', 1)[-1] if odd != 'big-ok' else 'yaml'
            second = {'name': '$required'} if odd != 'big-ok' else {'name': 'ok'}
            inp = 'app.' + ext
            w(inp, ser.write(ext, [{'blob': big, 'n': 1}, second], None, 'quoted'))
        res.nontrivial = True
        res.labels.add('fsodd:' + odd)
        tools = (('bkl', ['-f', 'json', inp]), ('bklr', ['-f', 'json', inp]), ('bkld', ['-f', 'json', inp, inp]), ('bkli', ['-f', 'json', inp, inp]))
        if odd.startswith('big-'):
            tools = (('bkl', ['-f', 'json', inp]), ('bkl', ['-f', 'yaml', inp]), ('bkl', ['-f', 'toml', inp]), ('bkl', [inp]))
        for tool, argv in tools:
            r = cli([ctx.bin(tool)] + argv, cwd=d, budget=200000 if 'self-parent' in odd else 2000000)
            res.execs += 1
            if not judge_cli(res, r, '%s on %s' % (tool, odd), None if odd.startswith('big-') else 'json', must_fail=odd.startswith('big-then-fail'), detail={'odd': odd}):
                return res
        resp = ctx.call([{'op': 'merge_layers', 'path': os.path.join(d, inp)}, {'op': 'output', 'format': 'json'}], res)
        judge_lib(res, resp, 'library on %s' % odd, False, {'odd': odd})
    finally:
        try:
            os.chmod(os.path.join(d, 'app.yaml'), 0o644)
        except OSError:
            pass
        ctx.cleanup_case(d)
    return res


def check_read_fault(ctx, case, res):
    """A read of one layer file fails with EIO (injected by strace -P <file> -e inject=read:error=EIO:when=N): the tool must exit
    non-zero with a diagnostic and nothing on stdout - in particular it must not go on with a partial or missing layer."""
    import subprocess
    from ..core import scrub_env
    d = ctx.casedir()
    try:
        with open(os.path.join(d, 'a.yaml'), 'w') as f:
            f.write('base: 1\nl: [1, 2]\nneed: $required\n')
        with open(os.path.join(d, 'a.b.yaml'), 'w') as f:
            f.write('top: 2\nneed: filled\n')
        with open(os.path.join(d, 'other.json'), 'w') as f:
            f.write('{"base": 1, "top": 3}\n')
        t = case['tool']
        victim = os.path.join(d, 'a.yaml' if case['target'] == 'lower' else 'a.b.yaml')
        argv = {'bkl': ['bkl', '-f', 'json', 'a.b.yaml'], 'bkld': ['bkld', 'other.json', 'a.b.yaml'], 'bkli': ['bkli', 'a.b.yaml', 'other.json'], 'bklr': ['bklr', 'a.b.yaml'],
                'catb': [os.path.join(d, 'catb'), 'a.b.yaml']}[t]
        if t == 'catb':
            os.symlink(ctx.bin('bklb'), os.path.join(d, 'catb'))
            os.makedirs(os.path.join(d, 'wtmp'), exist_ok=True)
        else:
            argv[0] = ctx.bin(argv[0])
        tracefile = os.path.join(d, 'strace.out')
        full = ['strace', '-f', '-qq', '-P', victim, '-e', 'trace=read', '-e', 'inject=read:error=EIO:when=%d' % case['when'], '-o', tracefile] + argv
        p = subprocess.run(full, cwd=d, env=scrub_env({'TMPDIR': os.path.join(d, 'wtmp')}), stdout=subprocess.PIPE, stderr=subprocess.PIPE, timeout=120)
        res.execs += 1
        res.nontrivial = True
        res.labels.add('fault:%s:read-eio:%s:%d' % (t, case['target'], case['when']))
        trace = open(tracefile, errors='replace').read() if os.path.exists(tracefile) else ''
        if 'INJECTED' not in trace:
            return res.inconclusive('the injected read error was never delivered (strace saw no matching read)')
        detail = {'tool': t, 'target': case['target'], 'when': case['when'], 'stdout': p.stdout[:300].decode('utf-8', 'replace'), 'stderr': p.stderr[-300:].decode('utf-8', 'replace')}
        if crashed(p.returncode, p.stderr):
            return res.violate('crash', '%s died on a read error: rc=%s' % (t, p.returncode), **detail)
        if p.returncode == 0:
            return res.violate('fault', '%s reported success although a read of a layer file failed (EIO)' % t, **detail)
        if p.stdout:
            return res.violate('partial', '%s failed on a read error but wrote %d bytes to stdout' % (t, len(p.stdout)), **detail)
        if not p.stderr.strip():
            return res.violate('silent', '%s exited %s without a diagnostic on a read error' % (t, p.returncode), **detail)
        res.ev('fault_runs_judged')
        res.ev('read_faults_injected')
    finally:
        ctx.cleanup_case(d)
    return res


def check_fault(ctx, case, res):
    """The output device is full (/dev/full): the tool must exit non-zero with a diagnostic."""
    if case.get('inject') == 'read-eio':
        return check_read_fault(ctx, case, res)
    import subprocess
    d = ctx.casedir()
    try:
        with open(os.path.join(d, 'a.json'), 'w') as f:
            f.write('{"a": 1, "l": [1, 2]}\n')
        with open(os.path.join(d, 'b.json'), 'w') as f:
            f.write('{"a": 2, "l": [1, "$required"]}\n')
        t = case['tool']
        argv = {'bkl': ['bkl', 'a.json'], 'bkl-o': ['bkl', '-o', '/dev/full', '-f', 'json', 'a.json'], 'bkld': ['bkld', 'a.json', 'b.json'], 'bkli': ['bkli', 'a.json', 'b.json'], 'bklr': ['bklr', 'b.json']}[t]
        argv[0] = ctx.bin(argv[0])
        from ..core import scrub_env
        with open('/dev/full', 'wb') as full:
            p = subprocess.run(argv, cwd=d, env=scrub_env(), stdout=full if t != 'bkl-o' else subprocess.PIPE, stderr=subprocess.PIPE, timeout=60)
        res.execs += 1
        res.nontrivial = True
        res.labels.add('fault:' + t)
        if p.returncode == 0:
            return res.violate('fault', '%s reported success although its output could not be written (ENOSPC)' % t)
        if crashed(p.returncode, p.stderr) or not p.stderr.strip():
            return res.violate('fault', '%s: rc=%s stderr=%r on a full output device' % (t, p.returncode, p.stderr[-200:]))
        res.ev('fault_runs_judged')
    finally:
        ctx.cleanup_case(d)
    return res
