"""C09 Evaluation is deterministic (history monitor over repeated / fresh-process / concurrent evaluations + Go race detector)."""
import hashlib
import json
import os
import random

from ..core import crashed, Result, out_bytes, cli, scrub_env
from .. import gen, ser
from ..val import clone
from . import c01, c06, c07, c10, c11, c12, c02

ID = 'C09'
NEED_RACE = True
SIZES = {'quick': 2500, 'thorough': 80000}
REQUIRED_EVENTS = ['same_process_evaluations', 'concurrent_evaluations', 'fresh_process_evaluations']
RULE = ('inputs pooled from the generators of C01 (layer chains), C02 (streams with document-level $match), C06 ($-rich data), C07 (markers), '
        'C10 (references incl. cross-document), C11 (multi-$output), C12 ($repeat incl. named counts) and the directive-rich document generator, '
        'plus C09-specific shapes (root-level $merge of a subtree containing its own key, $replace:true maps that repeat parent values, 20-40 key '
        'maps under tolist/values/flags/$output/$repeat). Each input is evaluated N times in one process with fresh parsers (N=4; thorough 8), '
        'from G goroutines at once in a -race build of the worker (G=8; thorough 16; half of them evaluating other inputs) for R rounds, and a '
        'sample M=3 times in fresh processes by the binary from files written with shuffled key order. Every (status, sha256(output)) event of '
        'one input must be identical; the race detector must stay silent (WARNING: DATA RACE blocks counted in the worker\'s stderr). '
        'Non-trivial = the input has a directive or >= 2 layers/documents; distinct = distinct inputs.')
ASSUMPTIONS = ['error messages are not compared, only success/failure and output bytes', 'Go randomises every map range, so each repeat samples another iteration order']

SOURCES = ['c01', 'c02', 'c06', 'c07', 'c10', 'c11', 'c12', 'evaldoc', 'evaldoc', 'special', 'special']


def program(rng, i, tier):
    """[(id, parents, data)] merge program from one of the pooled generators."""
    src = rng.choice(SOURCES)
    if src == 'c01':
        c = c01.gen_case(rng, i, tier)
        return src, [('L%d' % k, ['L%d' % (k - 1)] if k else [], l) for k, l in enumerate(c['layers'])]
    if src == 'c07':
        c = c07.gen_case(rng, i, tier)
        if c.get('mode') == 'scalar-doc':
            return src, [('C%dL%d' % (ci, li), ['C%dL%d' % (ci, li - 1)] if li else [], l) for ci, chain in enumerate(c['chains']) for li, l in enumerate(chain)]
        return src, [('L%d' % k, ['L%d' % (k - 1)] if k else [], l) for k, l in enumerate(c['layers'])]
    if src == 'c02':
        c = c02.gen_case(rng, i, tier)
        while 'steps' not in c:         # C02's file-only cases (native TOML scalars) have no merge program
            c = c02.gen_case(rng, i, tier)
        return src, [(s['id'], s['parents'], s['data']) for s in c['steps']]
    if src == 'c06':
        c = c06.gen_case(rng, i, tier)
        t = c['tree'] if c['kind'] == 'plain' else c06.double(c['tree'])
        if c['kind'] == 'layered':
            return src, [('L0', [], c['parent']), ('L1', ['L0'], t)]
        return src, [('L0', [], t)]
    if src == 'c10':
        c = c10.gen_case(rng, i, tier)
        return src, [('d%d' % k, [], d) for k, d in enumerate(c['docs'])]
    if src == 'c11':
        c = c11.gen_case(rng, i, tier)
        return src, [('d%d' % k, [], d) for k, d in enumerate(c['docs'])]
    if src == 'c12':
        c = c12.gen_case(rng, i, tier)
        return src, [('L%d' % k, ['L%d' % (k - 1)] if k else [], c12.render_direct(l)) for k, l in enumerate(c['layers'])]
    if src == 'evaldoc':
        n = rng.choice([1, 2, 3])
        return src, [('d%d' % k, [], gen.evaldoc(rng, k, n, set())) for k in range(n)]
    return src, special(rng)


def manykeys(rng, n):
    m = {'k%02d' % j: rng.choice([1, 'v', True, j, 'x%d' % j]) for j in rng.sample(range(60), n)}
    if rng.random() < 0.3:
        # keys that differ only in letter case (an order that folds case would leave them tied)
        for k in rng.sample(list(m.keys()), min(len(m), rng.randint(1, 3))):
            m[k.upper()] = rng.choice([2, 'V', False])
        m['v'], m['V'] = 'lower', 'upper'
    return m


def special(rng):
    r = rng.random()
    if r < 0.2:
        c = {'c': {'y': 2, 'z': manykeys(rng, 6)}, 'x': 1}
        c.update(manykeys(rng, rng.randint(2, 10)))
        return [('d', [], {'$merge': 'c', 'c': c, 'own': 1})]
    if r < 0.4:
        base = manykeys(rng, rng.randint(4, 20))
        base['nested'] = manykeys(rng, 5)
        child = {'$replace': True}
        for k in rng.sample(list(base.keys()), max(1, len(base) // 2)):
            child[k] = clone(base[k])
        child['newkey'] = 1
        return [('L0', [], {'cfg': base, 'name': 'svc'}), ('L1', ['L0'], {'cfg': child})]
    if r < 0.55:
        m = manykeys(rng, rng.randint(20, 40))
        return [('d', [], {'a': dict(m, **{'$encode': rng.choice(['tolist:=', 'values', 'flags', 'json', 'yaml', 'toml', ['tolist:=', 'join:,']])})})]
    if r < 0.7:
        d = {}
        for j in rng.sample(range(40), rng.randint(5, 20)):
            d['o%02d' % j] = {'$output': True, 'id': j, 'sub': {'$output': rng.choice([True, False]), 'id': 100 + j}}
        return [('d', [], d)]
    if r < 0.85:
        names = rng.sample('abcdefgh', rng.randint(2, 4))
        d = {'$repeat': {n: rng.randint(1, 2) for n in names}, 'v': '$"' + '-'.join('{$repeat:%s}' % n for n in names) + '"'}
        d.update(manykeys(rng, 5))
        return [('d', [], d)]
    if rng.random() < 0.12:
        # a long stream of plain documents (evaluation order across documents must be the stream order)
        return [('d%d' % k, [], {'n': k, 'pad': manykeys(rng, 3)}) for k in range(rng.randint(12, 24))]
    if rng.random() < 0.25:
        # evaluation order between siblings matters when a map-form $merge is expanded in place
        d = {'defaults': {'port': 80, 'host': 'h'}, 'frontend': {'$merge': 'defaults', 'own': 1}}
        for k in rng.sample(['a0', 'listen', 'zz', 'b1', 'm5', 'x9', 'ff'], rng.randint(2, 5)):
            d[k] = rng.choice(['$replace:frontend.port', '$merge:frontend.host', '$"{frontend.port}"', {'$merge': 'frontend', 'k': 1}])
        return [('d', [], d)]
    if rng.random() < 0.3:
        # several keys that evaluate to the same string: whatever the result is, it must be the same every time
        d = {'tier': 'web', 'region': 'eu', 'm': {'$"{tier}-{region}"': 1, 'web-eu': 2, '$"{tier}-eu"': 3, 'other': 4}}
        if rng.random() < 0.5:
            d['l'] = [{'$"{tier}"': 'a', 'web': 'b'}]
        if rng.random() < 0.5:
            d['r'] = {'$"k"': {'$repeat': 2, 'i': '$repeat'}}
        if rng.random() < 0.6:
            # keys generated by a repeat collide with keys written out next to it
            d['pool'] = {'$"srv-{$repeat}"': {'$repeat': rng.randint(2, 4), 'i': '$repeat'}, 'srv-1': {'literal': True}, 'srv-0': rng.choice(['x', {'literal': 0}]), 'aaa': 1, 'zzz': 2}
        return [('d', [], d)]
    m = manykeys(rng, rng.randint(10, 30))
    keys = list(m.keys())
    d = {'tpl': m, 'h': {'$merge': 'tpl', 'extra': 1}, 'l': [{'$merge': 'tpl.' + keys[0]}] if False else ['$merge:tpl.' + keys[0], '$"{tpl.%s}{tpl.%s}"' % (keys[1], keys[2])]}
    d['rm'] = {'$"r{$repeat}"': {'$repeat': 3, 'i': '$repeat', 'all': '$merge:tpl'}}
    return [('d', [], d)]


def _program(rng, i, tier):
    for _ in range(20):
        src, prog = program(rng, i, tier)
        if prog:
            return src, prog
    return 'special', special(rng)


def gen_case(rng, i, tier):
    from .c08 import bound_repeat
    src, prog = _program(rng, i, tier)
    osrc, other = _program(rng, i + 7919, tier)
    for _, _, data in list(prog) + list(other):
        bound_repeat(data)
    return {'src': src, 'prog': [list(p) for p in prog], 'other': [list(p) for p in other], 'fmt': rng.choice(['json', 'yaml', 'json-pretty', 'toml', 'json']), 'fresh': i % 8 == 0}


def fixed_cases(tier):
    out = []
    P = [[['d', [], {'$merge': 'c', 'c': {'c': {'y': 2}, 'x': 1}}]],
         [['L0', [], {'cfg': {'name': 'svc', 'port': 8080, 'a': 1, 'b': 2, 'c': 3}}], ['L1', ['L0'], {'cfg': {'$replace': True, 'name': 'svc', 'port': 8080, 'z': 1}}]],
         [['d', [], {'$repeat': {'x': 2, 'y': 2}, 'v': '$"{$repeat:x}{$repeat:y}"'}]],
         [['d', [], {'width': '$"{$repeat.x}"'}]],
         [['d', [], {'o1': {'$output': True, 'a': 1}, 'o2': {'$output': True, 'b': 2}, 'o3': [{'$output': True}, 1]}]],
         [['d', [], {'tier': 'web', 'region': 'eu', 'm': {'$"{tier}-{region}"': 1, 'web-eu': 2, 'zz': 3}}]],
         # two directives in one map: which one fires must not depend on the iteration order of the map
         [['d', [], {'t': {'$decode': 'json', '$value': '{"a": 1}', '$encode': 'yaml'}}]],
         [['d', [], {'$encode': 'json', '$decode': 'json', '$value': '[1, 2]'}]]]
    for p in P:
        for q in P:
            out.append({'src': 'fixed', 'prog': p, 'other': q, 'fmt': 'json', 'fresh': True})
    return out


def ops_for(prog, fmt, parser=0, prefix=''):
    ops = [{'op': 'merge_doc', 'id': prefix + pid, 'parents': [prefix + x for x in par], 'data': data, 'parser': parser} for pid, par, data in prog]
    ops.append({'op': 'output', 'format': fmt, 'parser': parser})
    return ops


def event(rs):
    """(status, sha256(output)) of one evaluation = results of one ops_for() block."""
    failed = any(r['err'] is not None or r.get('panic') for r in rs)
    if failed:
        return ('fail', None)
    return ('ok', hashlib.sha256(out_bytes(rs[-1])).hexdigest())


def check_case(ctx, case):
    res = Result()
    prog, other, fmt = case['prog'], case['other'], case['fmt']
    thorough = ctx.tier == 'thorough'
    N, G, R = (8, 16, 3) if thorough else (4, 8, 2)
    res.labels.add('src:' + case['src'])
    text = json.dumps(prog)
    res.nontrivial = '$' in text or len(prog) > 1
    events = []
    # (1) N evaluations in one process, fresh parsers
    ops = []
    for k in range(N):
        ops += ops_for(prog, fmt, parser=k, prefix='r%d:' % k)
    resp = ctx.call(ops, res)
    if resp is None:
        return res.violate('crash', 'worker died', prog=prog)
    n1 = len(prog) + 1
    for k in range(N):
        blk = resp['results'][k * n1:(k + 1) * n1]
        for r in blk:
            if r.get('panic'):
                return res.violate('crash', 'panic: ' + r['panic'][:300], prog=prog)
        events.append(('same-process', k) + event(blk))
    res.ev('same_process_evaluations', N)
    # (2) G goroutines at once under the race detector, R rounds
    w = ctx.env_worker('race', None, race=True)
    cases = []
    for g in range(G):
        p = prog if g % 2 == 0 else other
        cases.append(ops_for(p, fmt, parser=0, prefix='g%d:' % g))
    try:
        resp2 = w.call([{'op': 'concurrent', 'cases': cases, 'repeat': R}], budget=0, timeout=300)
        res.execs += 1
    except Exception as e:
        stderr = getattr(e, 'stderr', '')
        ctx.drop_worker('race', race=True)
        if 'DATA RACE' in stderr or 'concurrent map' in stderr:
            return res.violate('race', 'concurrent evaluations crashed the process: %s' % stderr[-1500:], prog=prog, other=other)
        return res.violate('crash', 'race-build worker died under concurrent evaluation: %s' % stderr[-800:], prog=prog, other=other)
    sub = resp2['results'][0].get('sub') or []
    others = []
    for rnd, round_ in enumerate(sub):
        for g, blk in enumerate(round_):
            for r in blk:
                if r.get('panic'):
                    return res.violate('crash', 'panic under concurrency: ' + r['panic'][:300], prog=prog)
            if g % 2 == 0:
                events.append(('concurrent', '%d.%d' % (rnd, g)) + event(blk))
            else:
                others.append(event(blk))
    res.ev('concurrent_evaluations', len(sub) * G)
    if len(set(others)) > 1:
        return res.violate('determinism', 'a co-running input gave different results across goroutines/rounds', prog=other, events=sorted(set(map(str, others))))
    # the same program once more, this time decoded from files (YAML with anchors and aliases) inside the goroutines
    if case.get('i', 0) % 4 == 0 and all(isinstance(d, dict) for _, _, d in prog):
        fd = ctx.casedir()
        frng = random.Random(text)
        paths = []
        for gi in range(G):
            pth = os.path.join(fd, 'g%d.yaml' % gi)
            docs_ = [d for _, par, d in (prog if gi % 2 == 0 else other) if not par and isinstance(d, dict)] or [{'k': gi}]
            with open(pth, 'w') as f:
                f.write(ser.yaml_stream(docs_, frng, 'rich') if frng.random() < 0.7 else ser.yaml_stream(docs_, frng))
                f.write('---\nanch: &a {v: 1, l: [1, 2]}\nuse1: *a\nuse2: {<<: *a, w: 2}\nuse3: [*a, *a]\n')
            if gi % 3 == 0:
                # a layer on top, so that the parent lookup by name runs inside the goroutines as well
                pth = os.path.join(fd, 'g%d.top.json' % gi)
                with open(pth, 'w') as f:
                    f.write('{"toplayer": %d}' % gi)
            paths.append(pth)
        # a layer that overrides BELOW the top level of its parent file, evaluated repeatedly in this process: what the parent file
        # decodes to must not be altered by the evaluation (content unique per case, so that no earlier case has loaded it)
        nonce = hashlib.sha256(text.encode()).hexdigest()[:12]
        for tag in ('p', 'q'):
            with open(os.path.join(fd, 'n%s.yaml' % tag), 'w') as f:
                f.write('nonce: %s%s\ncfg:\n  v: 1\n  l: [1, 2]\n  m: {k: 1, j: [0]}\n' % (tag, nonce))
            with open(os.path.join(fd, 'n%s.top.json' % tag), 'w') as f:
                f.write('{"cfg": {"v": 2, "l": [3], "m": {"k": 2, "j": [1]}}}')
            paths.append(os.path.join(fd, 'n%s.top.json' % tag))
        fcases = [[{'op': 'merge_layers', 'path': pth}, {'op': 'output', 'format': fmt}] for pth in paths]
        try:
            resp3 = w.call([{'op': 'concurrent', 'cases': fcases, 'repeat': R}], budget=0, timeout=300)
            res.execs += 1
        except Exception as e:
            stderr = getattr(e, 'stderr', '')
            ctx.drop_worker('race', race=True)
            ctx.cleanup_case(fd)
            return res.violate('race', 'concurrent evaluations from files crashed the process: %s' % stderr[-1500:], prog=prog)
        ctx.cleanup_case(fd)
        per = {}
        for round_ in resp3['results'][0].get('sub') or []:
            for g, blk in enumerate(round_):
                per.setdefault(g, set()).add(event(blk))
        if any(len(v) > 1 for v in per.values()):
            return res.violate('determinism', 'the same file gave different results across concurrent rounds', prog=prog)
        res.ev('concurrent_file_evaluations', len(per) * R)
    racelog = w.stderr_text()
    nraces = racelog.count('WARNING: DATA RACE')
    if nraces:
        ctx.drop_worker('race', race=True)
        return res.violate('race', 'race detector reported %d data race(s) while evaluations ran concurrently' % nraces, prog=prog, other=other, report=racelog[:3000])
    # (3) fresh processes from files, key order shuffled
    if case.get('fresh') and all(not par or par == [prog[k - 1][0]] for k, (pid, par, data) in enumerate(prog)) and all(isinstance(d, (dict, list)) for _, _, d in prog) and fmt in ('json', 'yaml', 'toml', 'json-pretty'):
        chain_like = all((k == 0 and not par) or par for k, (pid, par, data) in enumerate(prog))
        if chain_like:
            rng = random.Random(text)
            for m in range(3):
                d = ctx.casedir()
                name = 'a'
                for k, (pid, par, data) in enumerate(prog):
                    if k:
                        name += '.l%d' % k
                    with open(os.path.join(d, name + '.json'), 'w') as f:
                        f.write(json.dumps(ser.shuffle_keys(data, rng)))
                r = cli([ctx.bin('bkl'), '-f', fmt, name + '.json'], cwd=d)
                res.execs += 1
                ctx.cleanup_case(d)
                if crashed(r.rc, r.err):
                    return res.violate('crash', 'bkl binary died rc=%s' % r.rc, prog=prog)
                events.append(('fresh-process', m, 'ok' if r.rc == 0 else 'fail', hashlib.sha256(r.out).hexdigest() if r.rc == 0 else None))
            res.ev('fresh_process_evaluations', 3)
    # (4) a wildcard $parent that matches sibling layers of different formats: the order of the parents decides which one wins
    if case.get('i', 0) % 6 == 0:
        wd = ctx.casedir()
        wrng = random.Random(text + 'w')
        exts = ['toml', 'yaml', 'json', 'yml', 'json']
        wrng.shuffle(exts)
        subs = wrng.sample(['a', 'b', 'c', 'd', 'e'], wrng.randint(2, 4))
        for k, sname in enumerate(subs):
            doc = {'who': sname, 'trace': [sname], 'k' + sname: k}
            with open(os.path.join(wd, 'stem.%s.%s' % (sname, exts[k])), 'w') as f:
                f.write(ser.write('yaml' if exts[k] == 'yml' else exts[k], [doc]))
        with open(os.path.join(wd, 'stem.json'), 'w') as f:
            f.write('{"root": true}')
        top = prog[0][2] if isinstance(prog[0][2], dict) and wrng.random() < 0.5 else {'top': 1}
        top = dict(top)
        top['$parent'] = wrng.choice(['stem.*', ['stem.*']])
        with open(os.path.join(wd, 'top.json'), 'w') as f:
            f.write(json.dumps(top))
        wev = []
        wops = []
        for k in range(N + 2):
            wops += [{'op': 'merge_layers', 'path': os.path.join(wd, 'top.json'), 'parser': k}, {'op': 'output', 'format': 'json', 'parser': k}]
        respw = ctx.call(wops, res)
        if respw is None:
            ctx.cleanup_case(wd)
            return res.violate('crash', 'worker died (wildcard parents)', top=top)
        for k in range(N + 2):
            wev.append(('same-process', k) + event(respw['results'][2 * k:2 * k + 2]))
        for m in range(3):
            r = cli([ctx.bin('bkl'), '-f', 'json', 'top.json'], cwd=wd)
            res.execs += 1
            if crashed(r.rc, r.err):
                ctx.cleanup_case(wd)
                return res.violate('crash', 'bkl binary died rc=%s' % r.rc, top=top)
            wev.append(('fresh-process', m, 'ok' if r.rc == 0 else 'fail', hashlib.sha256(r.out).hexdigest() if r.rc == 0 else None))
        ctx.cleanup_case(wd)
        if len(set((e[2], e[3]) for e in wev)) > 1:
            return res.violate('determinism', 'a $parent wildcard over sibling layers of different formats gave different results for the same files',
                               top=top, siblings=['stem.%s.%s' % (sname, exts[k]) for k, sname in enumerate(subs)], events=[list(map(str, e)) for e in wev])
        res.ev('wildcard_parent_evaluations', len(wev))
        res.labels.add('wildcard-parents:' + wev[0][2])
    # (5) the other tools are functions of their input files as well: bkld / bkli / bklr run several times on one pair of files
    if case.get('i', 0) % 8 == 1:
        from .. import edits
        trng = random.Random(text + 't')
        base = edits.base_tree(trng)
        target = edits.edit(trng, base, set())
        if trng.random() < 0.5:
            base.update(manykeys(trng, 6))
            target.update({k: (v if trng.random() < 0.5 else {'now': 'a map'}) for k, v in manykeys(trng, 6).items()})
        td = ctx.casedir()
        with open(os.path.join(td, 'base.json'), 'w') as f:
            f.write(json.dumps(base))
        with open(os.path.join(td, 'target.json'), 'w') as f:
            f.write(json.dumps(target))
        with open(os.path.join(td, 'req.json'), 'w') as f:
            f.write(json.dumps(dict(base, need={'a': '$required', 'b': ['$required'], 'c': manykeys(trng, 3)}, zneed='$required')))
        for tool, args in (('bkld', ['base.json', 'target.json']), ('bkli', ['base.json', 'target.json']), ('bklr', ['req.json'])):
            seen = set()
            for m in range(4):
                r = cli([ctx.bin(tool), '-f', trng.choice(['json', 'json']) if False else 'json'] + args, cwd=td)
                res.execs += 1
                if crashed(r.rc, r.err):
                    ctx.cleanup_case(td)
                    return res.violate('crash', '%s died rc=%s' % (tool, r.rc), base=base, target=target)
                seen.add((r.rc, r.out))
            if len(seen) > 1:
                ctx.cleanup_case(td)
                return res.violate('determinism', '%s gave %d different results for the same files in 4 runs' % (tool, len(seen)), base=base, target=target,
                                   outputs=sorted(o.decode('utf-8', 'replace')[:400] for _, o in seen))
        ctx.cleanup_case(td)
        res.ev('tool_repetitions', 12)
    # (6) the result does not depend on what the process evaluated before: a lower layer changes its extension between two evaluations
    if case.get('i', 0) % 8 == 2:
        sd = ctx.casedir()
        low = {'who': 'lower', 'keep': [1, 2], 'n': case.get('i', 0)}
        with open(os.path.join(sd, 'svc.yaml'), 'w') as f:
            f.write(ser.write('yaml', [low]))
        with open(os.path.join(sd, 'svc.prod.json'), 'w') as f:
            f.write('{"who": "upper"}')
        top = os.path.join(sd, 'svc.prod.json')
        r1 = ctx.call([{'op': 'merge_layers', 'path': top, 'parser': 0}, {'op': 'output', 'format': 'json', 'parser': 0}], res)
        os.remove(os.path.join(sd, 'svc.yaml'))
        with open(os.path.join(sd, 'svc.toml'), 'w') as f:
            f.write(ser.write('toml', [low]))
        r2 = ctx.call([{'op': 'merge_layers', 'path': top, 'parser': 1}, {'op': 'output', 'format': 'json', 'parser': 1}], res)
        r3 = cli([ctx.bin('bkl'), '-f', 'json', 'svc.prod.json'], cwd=sd)
        res.execs += 1
        ctx.cleanup_case(sd)
        if r1 is None or r2 is None:
            return res.violate('crash', 'worker died (layer changed extension)')
        e1, e2 = event(r1['results']), event(r2['results'])
        e3 = ('ok' if r3.rc == 0 else 'fail', hashlib.sha256(r3.out).hexdigest() if r3.rc == 0 else None)
        if not (e1 == e2 == e3):
            return res.violate('determinism', 'the same layers give different results depending on what the process evaluated before '
                               '(lower layer moved from svc.yaml to svc.toml between two evaluations)', first=str(e1), second=str(e2), fresh_process=str(e3),
                               second_err=[x.get('err') for x in r2['results']])
        res.ev('layer_moved_between_evaluations')
    kinds = set((e[2], e[3]) for e in events)
    if len(kinds) > 1:
        return res.violate('determinism', 'the same input gave %d different (status, output) results' % len(kinds), prog=prog, fmt=fmt,
                           events=[list(map(str, e)) for e in events])
    res.labels.add('outcome:' + events[0][2])
    return res


def extra_coverage(m):
    return {'race_detector': 'Go -race build of harness/go/cmd/worker linked to /repo; WARNING: DATA RACE blocks in its stderr are counted after every concurrent batch'}
