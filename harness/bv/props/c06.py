"""C06 Plain data passes through unchanged; $$ escapes any literal dollar (identity / escape monitors)."""
import json
import os

from ..core import Result, out_bytes, cli
from .. import gen, model, ser
from ..val import veq, clone, drop_nulls, strings_of, show

ID = 'C06'
SIZES = {'quick': 30000, 'thorough': 4000000}
REQUIRED_EVENTS = ['identity_held', 'escape_held', 'layered_held']
RULE = ('random JSON-like trees whose keys and values are drawn from an alphabet of $ " \' { } : . space letters digits and whole '
        'directive words. kind=plain: $$-free strings that do not start with $+lowercase (nor are $"..." interpolations) must '
        'evaluate to themselves minus nulls. kind=escape: any tree with every $ doubled must evaluate to the original. '
        'kind=layered: the doubled tree as child of a $-free parent must evaluate to the unescaped documented merge. '
        'Non-trivial = the tree contains at least one $ ; distinct = distinct (kind, tree).')
ASSUMPTIONS = ['merge model (harness/bv/model.py) for the layered variant',
               'strings starting with $" but not ending in " : identity or an error are both accepted (statement silent)']

ALPHA = ['$', '$', '"', "'", '{', '}', ':', '.', ' ', 'a', 'b', 'A', '1', 'x']
WORDS = ['$merge:x', '$merge', '$replace:a.b', '$replace', '$"{a}"', '$"x{a}y"', '$required', '$delete', '$match', '$output', '$env:HOME',
         '$repeat', '$repeat:x', '$encode', '$decode', '$value', '$parent', '$invert', '$mtach', '$foo', '$FOO', '${X}', '$(cmd)', '$1', 'a$b', '$',
         '$$', '$ x', '$A.b', '$\u20ac5', '$\u2192x', '$\u65e5\u672c', '$\U0001F600', '$\u00e9t\u00e9', '$\u00df', 'a$\u20ac', '$_x', '$-x', '$.x', '$9x', '{$env:HOME}', '$"', '$"abc', 'x$"y"', '$$merge:x']


def rstr(rng):
    r = rng.random()
    if r < 0.4:
        w = rng.choice(WORDS)
        if rng.random() < 0.2:
            w += rng.choice(['', 'x', ':a', '"', '$'])
        return w
    if r < 0.55:
        return rng.choice(gen.STRS + ['a', 'b'])
    return ''.join(rng.choice(ALPHA) for _ in range(rng.randint(1, 6)))


def is_plain(s):
    if '$$' in s:
        return False
    if len(s) >= 2 and s[0] == '$' and s[1].islower():
        return False
    if s.startswith('$"') and s.endswith('"') and len(s) >= 3:
        return False
    return True


def rtree(rng, depth, plain, nulls=True):
    def s():
        for _ in range(50):
            x = rstr(rng)
            if not plain or is_plain(x):
                return x
        return 'x'
    r = rng.random()
    if depth > 0 and r < 0.45:
        return {s(): rtree(rng, depth - 1, plain, nulls) for _ in range(rng.randint(0, 3))}
    if depth > 0 and r < 0.65:
        return [rtree(rng, depth - 1, plain, nulls) for _ in range(rng.randint(0, 3))]
    if r < 0.85:
        return s()
    return gen.scalar(rng, nulls=nulls)


def double(v):
    if isinstance(v, dict):
        return {k.replace('$', '$$'): double(x) for k, x in v.items()}
    if isinstance(v, list):
        return [double(x) for x in v]
    if isinstance(v, str):
        return v.replace('$', '$$')
    return v


def unescape(v):
    if isinstance(v, dict):
        return {k.replace('$$', '$'): unescape(x) for k, x in v.items()}
    if isinstance(v, list):
        return [unescape(x) for x in v]
    if isinstance(v, str):
        return v.replace('$$', '$')
    return v


def gen_case(rng, i, tier):
    kind = rng.choice(['plain', 'plain', 'escape', 'escape', 'layered'])
    depth = rng.choice([1, 2, 3])
    if kind == 'plain' and i % 400 == 7:
        # long plain containers (more than 1000 entries / keys)
        n = rng.choice([1001, 1500, 3000])
        t = {'long': ['e%d' % j for j in range(n)], 'wide': {'k%04d' % j: j for j in range(n)}, 'deep': [[[[[['x']]]]]]}
        return {'kind': kind, 'tree': t, 'cli': False}
    if kind == 'plain':
        t = rtree(rng, depth, True)
        if isinstance(t, dict) and rng.random() < 0.5:
            t = {k: v for k, v in t.items()}
        return {'kind': kind, 'tree': t, 'cli': i % 101 == 0}
    if kind == 'escape':
        return {'kind': kind, 'tree': rtree(rng, depth, False), 'cli': i % 101 == 0}
    parent = gen.tree(rng, 2, 3, nulls=True, root='map')
    t = rtree(rng, depth, False)
    if not isinstance(t, dict):
        t = {rng.choice(gen.KEYS): t}
    # make the child interact with the parent
    if parent and rng.random() < 0.7:
        k = rng.choice(list(parent.keys()))
        t[k] = rtree(rng, 1, False, nulls=False)
    return {'kind': kind, 'parent': parent, 'tree': t, 'cli': False}


def fixed_cases(tier):
    out = []
    for w in WORDS + ['$$$', 'a$$b', '$"{a}', '$"a" b']:
        out.append({'kind': 'escape', 'tree': {'k': w, w: 'v', 'l': [w, {w: w}]}, 'cli': True})
        if is_plain(w):
            out.append({'kind': 'plain', 'tree': {'k': w, w: 'v', 'l': [w, {w: w}]}, 'cli': True})
        out.append({'kind': 'layered', 'parent': {'k': 'old', 'm': {'x': 1}, 'l': [1]}, 'tree': {'k': w, 'm': {w: w}, 'l': [w]}, 'cli': False})
    return out


def shrink(case):
    from ..shrink import shrink_tree
    for t in shrink_tree(case['tree']):
        yield dict(case, tree=t)
    if 'parent' in case:
        for t in shrink_tree(case['parent']):
            if isinstance(t, dict):
                yield dict(case, parent=t)


def evaluate(ctx, res, layers):
    ops = []
    for i, l in enumerate(layers):
        ops.append({'op': 'merge_doc', 'id': 'L%d' % i, 'parents': ['L%d' % (i - 1)] if i else [], 'data': l})
    ops.append({'op': 'output', 'format': 'json'})
    resp = ctx.call(ops, res)
    if resp is None:
        res.violate('crash', 'worker died', layers=layers)
        return None, None
    rs = resp['results']
    for r in rs:
        if r.get('panic'):
            res.violate('crash', 'panic: ' + r['panic'][:300], layers=layers)
            return None, None
    for r in rs[:-1]:
        if r['err'] is not None:
            return 'merge-error: ' + r['err'], None
    o = rs[-1]
    if o['err'] is not None:
        return 'output-error: ' + o['err'], None
    got = [json.loads(l) for l in out_bytes(o).decode().splitlines() if l.strip()]
    return None, got


def check_case(ctx, case):
    res = Result()
    kind = case['kind']
    res.labels.add('kind:' + kind)
    t = case['tree']
    allstr = list(strings_of(t))
    res.nontrivial = any('$' in s for s in allstr)
    if kind == 'plain':
        err, got = evaluate(ctx, res, [t])
        if res.verdict != 'held':
            return res
        want = drop_nulls(t)
        want = [] if want is None else [want]
        loose = any(s.startswith('$"') for s in allstr)
        if err is not None:
            if loose:
                res.labels.add('unterminated-interp:error')
                return res
            return res.violate('identity', 'plain document rejected: %s' % err, tree=t)
        if not veq(got, want, loose=True):
            return res.violate('identity', 'plain document does not evaluate to itself', tree=t, expect=want, got=got)
        res.ev('identity_held')
    elif kind == 'escape':
        d = double(t)
        err, got = evaluate(ctx, res, [d])
        if res.verdict != 'held':
            return res
        want = drop_nulls(t)
        want = [] if want is None else [want]
        if err is not None:
            return res.violate('escape', 'doubled document rejected: %s' % err, tree=t, doubled=d)
        if not veq(got, want, loose=True):
            return res.violate('escape', 'doubled document does not evaluate to the original', tree=t, doubled=d, expect=want, got=got)
        res.ev('escape_held')
    else:
        d = double(t)
        p = case['parent']
        notes = model.Notes(null_policy=model.null_policies()[0])
        try:
            m = model.merge(p, d, notes)
        except model.Reject as e:
            m = None
            why = e.why
        if notes.unspec or notes.null_used:
            return res.skip((notes.unspec or ['null child over an existing value'])[0])
        err, got = evaluate(ctx, res, [p, d])
        if res.verdict != 'held':
            return res
        if m is None:
            if err is None:
                return res.violate('layered', 'layering accepted although the rules reject it (%s)' % why, parent=p, child=d)
            res.labels.add('layered:rejected')
            res.ev('layered_reject_agreed')
            return res
        if err is not None:
            if notes.either:
                return res
            return res.violate('layered', 'doubled child rejected over a plain parent: %s' % err, parent=p, child=d)
        want = drop_nulls(unescape(m))
        want = [] if want is None else [want]
        if not veq(got, want, loose=True):
            return res.violate('layered', 'doubled child over a parent does not give the unescaped merge', parent=p, child=d, expect=want, got=got)
        res.ev('layered_held')
    if case.get('cli') and kind in ('plain', 'escape') and isinstance(t, (dict, list)):
        d = ctx.casedir()
        doc = t if kind == 'plain' else double(t)
        fmt = 'yaml' if case.get('i', 0) % 2 else 'json'
        with open(os.path.join(d, 'in.' + fmt), 'w') as f:
            f.write(ser.write(fmt, [doc], style='quoted'))
        r = cli([ctx.bin('bkl'), '-f', 'json', 'in.' + fmt], cwd=d)
        res.execs += 1
        res.labels.add('via:cli-' + fmt)
        want = drop_nulls(t)
        want = [] if want is None else [want]
        if r.rc != 0:
            if not (kind == 'plain' and any(s.startswith('$"') for s in allstr)):
                res.violate('cli', 'bkl binary failed on %s data: %s' % (kind, r.err[-200:].decode('utf-8', 'replace')), tree=t)
        else:
            got = [json.loads(l) for l in r.out.decode().splitlines() if l.strip()]
            if not veq(got, want, loose=True):
                res.violate('cli', 'bkl binary: %s data not preserved' % kind, tree=t, expect=want, got=got)
        ctx.cleanup_case(d)
    return res
