"""C10 $merge and $replace behave as if the referenced subtree were written inline (metamorphic monitor)."""
import json

from ..core import Result, out_bytes, file_crosscheck
import random
from .. import gen, model
from ..val import veq, clone, walk, get_path

ID = 'C10'
NEED_BINS = True
SIZES = {'quick': 20000, 'thorough': 1500000}
REQUIRED_EVENTS = ['inline_agreed', 'required_failures', 'target_unchanged_checked', 'multi_reference_documents']
RULE = ('from a random $-free tree (1-3 document streams) choose a target path and a non-overlapping host position; plant one reference in '
        'map / list / string form, $merge or $replace, addressed by dotted string, list path (keys containing dots), cross-document '
        '{$match,$path} or [pattern, path...]; optionally a second reference inside the target (chain) and $output:false around the target. '
        'Metamorphic oracle, both sides run by the real evaluator: eval(D) == eval(D\') where D\' has the host expanded by hand ($replace: the '
        'raw subtree; $merge: documented merge of referenced onto local, a model Reject => D must fail). Also: the target subtree in eval(D) '
        'equals the one in eval(D without host); dangling paths and patterns matching 0 or >=2 documents must fail. Non-trivial = the '
        'reference resolved (or was required to fail); distinct = distinct (documents, host). One case in ten holds several references in one '
        'evaluated document with the expected document expanded by the generator: two cross-document patterns that differ only in the type '
        'of the matched value (1 / "1", true / "true") aimed at twin documents; a host merging T whose local content references T again; '
        'a host merging U whose local content references T whose content references U.')
ASSUMPTIONS = ['merge model for the $merge expansion', 'overlapping host/target not generated (C08/C09 territory)']

KEYS = ['a', 'b', 'c', 'd', 'x.y', 'a.b']


def map_paths(t, pre=()):
    """Paths reachable through maps only (what a reference can address)."""
    out = []
    if isinstance(t, dict):
        for k, v in t.items():
            out.append(pre + (k,))
            out += map_paths(v, pre + (k,))
    return out


def containers(t, pre=()):
    out = []
    if isinstance(t, dict):
        out.append(pre)
        for k, v in t.items():
            out += containers(v, pre + (k,))
    elif isinstance(t, list):
        for i, v in enumerate(t):
            out += containers(v, pre + (i,))
    return out


def path_text(p):
    return '.'.join(p)


def make_ref(rng, tpath, docname, form_cross, labels, docid=None):
    dotted = any('.' in k for k in tpath)
    if form_cross:
        pat = {'name': docname}
        if docid is not None and rng.random() < 0.4:
            pat = {'id': docid}
            labels.add('addr:cross-by-id')
        if rng.random() < 0.5:
            labels.add('addr:cross-$match-$path')
            return {'$match': pat, '$path': list(tpath) if dotted or rng.random() < 0.4 else path_text(tpath)}
        labels.add('addr:cross-list')
        return [pat] + list(tpath)
    if dotted or rng.random() < 0.35:
        labels.add('addr:list' + ('-dotted-key' if dotted else ''))
        return list(tpath)
    labels.add('addr:dotted-string')
    return path_text(tpath)


TWINS = [(1, '1'), (True, 'true'), (1.5, '1.5'), (0, '0'), (False, 'false'), (2, 2.5), ('a b', 'a  b')]


def plain(rng, depth=2):
    return gen.tree(rng, depth, 3, nulls=False, root='map', keys=['a', 'b', 'c', 'd'])


def gen_multi(rng):
    """Several references in one evaluated document, expanded by hand by the generator (expected document in 'expanded')."""
    kind = rng.choice(['twins', 'twins', 'nested-same-target', 'nested-same-target', 'nested-via-template', 'root-host', 'root-host', 'entry-host', 'entry-host'])
    labels = {'multi:' + kind}
    if kind == 'twins':
        # two documents whose distinguishing key differs only in type (or prints alike), both referenced from one host document
        x, y = rng.choice(TWINS)
        if rng.random() < 0.5:
            x, y = y, x
        key = rng.choice(['id', 'name', 'k'])
        da = {key: x, 't': plain(rng), 'who': 'first'}
        db = {key: y, 't': plain(rng), 'who': 'second'}
        forms = []
        host = {'hostdoc': True}
        exp = {'hostdoc': True}
        order = [('h1', da, x), ('h2', db, y)]
        if rng.random() < 0.5:
            order.reverse()
        if rng.random() < 0.4:
            order.append(('h3', order[0][1], order[0][2]))
        for hk, dd, idv in order:
            f = rng.choice(['cross-list', 'cross-match', 'cross-list-merge-local', 'str-cross'])
            pat = {key: idv}
            if f == 'cross-list':
                host[hk] = {'$replace': [pat, 't']}
                exp[hk] = clone(dd['t'])
            elif f == 'cross-match':
                host[hk] = {'$merge': {'$match': pat, '$path': 't'}}
                exp[hk] = clone(dd['t'])
            elif f == 'str-cross' and isinstance(idv, (int, float)) and not isinstance(idv, bool):
                host[hk] = '$merge:[{%s: %s}, who]' % (key, json.dumps(idv))
                exp[hk] = dd['who']
            else:
                host[hk] = {'$merge': [pat, 't'], 'zlocal': 1}
                e = clone(dd['t'])
                e['zlocal'] = 1
                exp[hk] = e
            forms.append(f)
        docs = [da, db, host]
        expanded = [clone(da), clone(db), exp]
        pos = rng.randrange(3)
        docs.insert(pos, docs.pop())
        expanded.insert(pos, expanded.pop())
        labels.add('twin:%s/%s' % (type(x).__name__, type(y).__name__))
        return {'docs': docs, 'expanded': expanded, 'multi': kind, 'labels': sorted(labels)}
    if kind == 'root-host':
        # a document that consists only of a reference: it is a placeholder, never a candidate for a pattern (not even for {})
        tdoc = plain(rng, 3)
        tdoc['kindof'] = 'defaults'
        sub = [k for k, v in tdoc.items() if isinstance(v, (dict, list))]
        pat = rng.choice([{}, {}, {'kindof': 'defaults'}])
        d = rng.choice(['$replace', '$merge'])
        if sub and rng.random() < 0.6:
            k = rng.choice(sub)
            host, exp = {d: rng.choice([{'$match': pat, '$path': k if '.' not in k else [k]}, [pat, k]])}, clone(tdoc[k])     # a key holding a dot needs the list form
        else:
            host, exp = {d: {'$match': pat}}, clone(tdoc)
        docs, expanded = [tdoc, host], [clone(tdoc), exp]
        if rng.random() < 0.5:
            docs.reverse()
            expanded.reverse()
        labels.add('root-host:%s:%s' % (d, 'empty-pattern' if not pat else 'pattern'))
        return {'docs': docs, 'expanded': expanded, 'multi': kind, 'labels': sorted(labels)}
    if kind == 'entry-host':
        # a map-form host with local keys that is itself a list entry (next to plain entries and to list-form references)
        t = plain(rng)
        local = {'name': rng.choice(['web', 'db']), 'own': rng.randint(1, 9)}
        if rng.random() < 0.4 and t:
            k0 = rng.choice(list(t.keys()))
            if not isinstance(t[k0], (dict, list)):
                local[k0] = gen.other_scalar(rng, t[k0])
        n2 = model.Notes()
        try:
            hexp = model.merge(local, clone(t), n2)
        except model.Reject:
            return None
        if n2.unspec or n2.either:
            return None
        host = dict(local, **{'$merge': rng.choice(['t', ['t']])})
        lst_i, lst_e = [host], [hexp]
        tail = []
        for extra in rng.sample([('plain', 'plain'), ({'k': 1}, {'k': 1}), ({'$merge': 'tl'}, None), (7, 7)], rng.randint(0, 3)):
            if extra[1] is None:
                # a list-form reference among the entries: the referenced list is merged onto the local entries (appended), wherever the marker sits
                lst_i.insert(rng.randint(0, len(lst_i)), extra[0])
                tail = ['s1', 's2']
            else:
                pos = len(lst_i) if any(isinstance(x, dict) and list(x.keys()) == ['$merge'] for x in lst_i) and False else rng.randint(0, len([x for x in lst_i if not (isinstance(x, dict) and list(x.keys()) == ['$merge'])]))
                # insert at the same logical position in both lists (the marker entry does not count)
                real = [j for j, x in enumerate(lst_i) if not (isinstance(x, dict) and list(x.keys()) == ['$merge'])]
                ipos = real[pos] if pos < len(real) else len(lst_i)
                lst_i.insert(ipos, clone(extra[0]))
                lst_e.insert(pos, clone(extra[1]))
        lst_e = lst_e + tail
        d = {'t': t, 'tl': ['s1', 's2'], 'l': lst_i}
        e = {'t': clone(t), 'tl': ['s1', 's2'], 'l': lst_e}
        if rng.random() < 0.3:
            d, e = {'w': [[d['l']]], 't': d['t'], 'tl': d['tl']}, {'w': [[e['l']]], 't': e['t'], 'tl': e['tl']}
        return {'docs': [d], 'expanded': [e], 'multi': kind, 'labels': sorted(labels)}
    t = plain(rng)
    t.pop('inner', None)
    notes = model.Notes()
    if kind == 'nested-same-target':
        # a host that merges T and whose local content references T again (T contains neither host)
        iloc = {'mem': rng.randint(1, 9)}
        inner_form = rng.choice(['map-merge', 'map-replace', 'str-merge', 'list-replace'])
        if inner_form == 'map-merge':
            inner, iexp = dict(iloc, **{'$merge': 't'}), model.merge(iloc, clone(t), notes)
        elif inner_form == 'map-replace':
            inner, iexp = {'$replace': 't'}, clone(t)
        elif inner_form == 'str-merge':
            inner, iexp = '$merge:t', clone(t)
        else:
            inner, iexp = [{'$replace': 't'}], clone(t)
        depth = rng.choice([0, 0, 1])
        loc_i, loc_e = {'inner': inner}, {'inner': iexp}
        if depth:
            loc_i, loc_e = {'wrap': loc_i}, {'wrap': loc_e}
        host = dict(loc_i, **{'$merge': 't'})
        try:
            hexp = model.merge(loc_e, clone(t), notes)
        except model.Reject:
            return None
        if notes.unspec or notes.either or 'wrap' in t:
            return None
        d = {'t': t, 'svc': host}
        e = {'t': clone(t), 'svc': hexp}
        labels.add('inner:' + inner_form)
        return {'docs': [d], 'expanded': [e], 'multi': kind, 'labels': sorted(labels)}
    # outer host merges U; its local content references T; T's content references U
    u = plain(rng, 1)
    u.pop('loc', None)
    tt = {'fromu': {'$merge': 'u'}, 'own': rng.randint(1, 9)}
    texp = {'fromu': clone(u), 'own': tt['own']}
    host = {'$merge': 'u', 'loc': rng.choice([{'$merge': 't'}, {'$replace': 't'}, '$merge:t'])}
    try:
        hexp = model.merge({'loc': clone(texp)}, clone(u), notes)
    except model.Reject:
        return None
    if notes.unspec or notes.either:
        return None
    d = {'u': u, 't': tt, 'outer': host}
    e = {'u': clone(u), 't': clone(texp), 'outer': hexp}
    return {'docs': [d], 'expanded': [e], 'multi': kind, 'labels': sorted(labels)}


def gen_case(rng, i, tier):
    if rng.random() < 0.1:
        c = gen_multi(rng)
        if c is not None:
            return c
    labels = set()
    ndocs = rng.choice([1, 1, 2, 3])
    docs = []
    for k in range(ndocs):
        d = gen.tree(rng, 3, 3, nulls=(rng.random() < 0.35), root='map', keys=KEYS)
        d['name'] = 'n%d' % k
        d['id'] = [1, '1', 1.5, True, 'true', '1.5', 2][(k * 3 + rng.randrange(7)) % 7] if ndocs > 1 else k
        d['tpl'] = gen.tree(rng, 2, 3, nulls=False, root='map', keys=KEYS)
        docs.append(d)
    hd = rng.randrange(ndocs)                       # host document
    td = rng.randrange(ndocs) if ndocs > 1 and rng.random() < 0.6 else hd
    cross = td != hd
    tps = map_paths(docs[td])
    tps = [p for p in tps if p != ('name',)]
    tpath = rng.choice(tps)
    target = get_path(docs[td], tpath)
    plan = {'host_doc': hd, 'target_doc': td, 'tpath': list(tpath)}
    # chain: a second reference inside the target, pointing elsewhere in the target document
    if isinstance(target, dict) and rng.random() < 0.25:
        others = [p for p in map_paths(docs[td]) if p[:len(tpath)] != tpath and tpath[:len(p)] != p and p != ('name',)]
        if others and not cross:
            p2 = rng.choice(others)
            target['chained'] = '$merge:' + path_text(p2) if not any('.' in k for k in p2) and rng.random() < 0.5 else {'$replace': list(p2)}
            labels.add('chain')
    if isinstance(target, list) and not cross and rng.random() < 0.3:
        # the referenced list itself holds references (as a nested value, as a string entry)
        others = [p for p in map_paths(docs[td]) if p[:len(tpath)] != tpath and tpath[:len(p)] != p and p != ('name',) and not any('.' in k for k in p)]
        if others:
            p2 = rng.choice(others)
            target.insert(rng.randint(0, len(target)), rng.choice([{'name': 'proxy', 'res': {'$replace': path_text(p2)}}, '$merge:' + path_text(p2), {'sub': {'$merge': list(p2), 'own': 1}}]))
            labels.add('chain-in-list-target')
    if cross and isinstance(target, dict) and rng.random() < 0.35:
        # document-relative reference inside a cross-document target: resolves in the host's document when inlined
        target['chained'] = rng.choice([{'$merge': 'tpl', 'extra': 1}, '$merge:name', {'$replace': 'tpl'}, [{'$merge': 'tpl'}] if False else {'$merge': 'tpl'}])
        labels.add('chain-cross')
    if rng.random() < 0.15 and len(tpath) >= 2:
        holder = get_path(docs[td], tpath[:-1])
        if isinstance(holder, dict) and (td != hd or True):
            holder['$output'] = False
            labels.add('target-in-hidden-template')
    # host position: a map container not inside the target (and not an ancestor's hidden holder)
    cs = [c for c in containers(docs[hd]) if cross or not (c[:len(tpath)] == tuple(tpath))]
    cpath = rng.choice(cs)
    cont = get_path(docs[hd], cpath)
    hk = 'host'
    form = rng.choice(['map-merge', 'map-merge', 'str-merge', 'map-replace', 'str-replace', 'list-merge', 'list-replace'])
    simple = all(k.isalnum() for k in tpath)
    if form in ('str-merge', 'str-replace') and ((cross and (not simple or rng.random() < 0.4)) or any('.' in k for k in tpath)):
        form = 'map-' + form.split('-')[1]
    uniq = [d_['id'] for d_ in docs]
    docid = docs[td]['id'] if sum(1 for x in uniq if type(x) is type(docs[td]['id']) and x == docs[td]['id']) == 1 else None
    ref = make_ref(rng, tpath, docs[td]['name'], cross, labels, docid)
    if form.startswith('str'):
        if cross:
            # string form of a cross-document reference: "[{name: n1}, a, b]"
            ref = '[{name: %s}, %s]' % (docs[td]['name'], ', '.join(tpath))
            labels.add('addr:string-form-cross')
        else:
            ref = path_text(tpath) if rng.random() < 0.7 else '[' + ', '.join(tpath) + ']'
        labels.add('addr:string-form')
    broken = None
    r = rng.random()
    if r < 0.08:
        broken = 'dangling'
        bad = list(tpath[:-1]) + ['nosuchkey']
        if not isinstance(target, dict) and rng.random() < 0.5:
            # the path continues below a scalar or a list: there is nothing to address there
            bad = list(tpath) + [rng.choice(['x', 'a', '0'])]
            broken = 'dangling-below-leaf'
        if form.startswith(('map', 'list')):
            ref = make_ref(rng, bad, docs[td]['name'], cross, labels)
        elif cross:
            # string form across documents: the dangling path must be looked up in the target document, not in the host's
            ref = '[{name: %s}, %s]' % (docs[td]['name'], ', '.join(bad))
        else:
            ref = path_text(bad)
    elif r < 0.14 and cross:
        broken = 'no-doc'
        ref = {'$match': {'name': 'nobody'}, '$path': list(tpath)}
        if form.startswith('str'):
            ref = '[{name: nobody}, %s]' % ', '.join(tpath)
    elif r < 0.2 and cross and ndocs > 1:
        broken = 'multi-doc'
        ref = {'$match': {}, '$path': list(tpath)}
        if form.startswith('str'):
            ref = '[{}, %s]' % ', '.join(tpath)
    labels.add('form:' + form)
    if broken:
        labels.add('broken:' + broken)
    local = None
    if form == 'map-merge':
        local = {}
        if isinstance(target, dict):
            for k in list(target.keys())[:rng.randint(0, 2)]:
                if k.startswith('$') or k == 'chained':
                    continue
                v = target[k]
                c = rng.random()
                if c < 0.35 and isinstance(v, dict):
                    local[k] = {'loc': 1}
                elif c < 0.6 and isinstance(v, list):
                    local[k] = ['loc']
                elif c < 0.8 and not isinstance(v, (dict, list)):
                    local[k] = gen.other_scalar(rng, v)
                elif c < 0.88:
                    local[k] = clone(v)        # same value: useless override expected
            if rng.random() < 0.6:
                local['own'] = gen.tree(rng, 1, 2)
        host = dict(local)
        host['$merge'] = ref
    elif form == 'str-merge':
        host = '$merge:' + ref
    elif form == 'map-replace':
        host = {'$replace': ref}
    elif form == 'str-replace':
        host = '$replace:' + ref
    elif form == 'list-merge':
        local = [gen.tree(rng, 1, 2) for _ in range(rng.randint(0, 2))]
        host = list(local)
        host.insert(rng.randint(0, len(host)), {'$merge': ref})
    else:
        host = [{'$replace': ref}]
    if isinstance(cont, dict):
        cont[hk] = host
        hpath = list(cpath) + [hk]
    else:
        return gen_case(rng, i + 1000003, tier)
    plan.update({'hpath': hpath, 'form': form, 'local': local, 'broken': broken})
    if rng.random() < 0.3:
        # a second use of the same reference (second host for the same target)
        cont['host2'] = clone(host)
        plan['hpath2'] = list(cpath) + ['host2']
        labels.add('second-host-same-target')
    return {'docs': docs, 'plan': plan, 'labels': sorted(labels)}


def fixed_cases(tier):
    T = {'t': {'x': 1, 'y': [1, 2], 'z': {'w': True}}, 'name': 'n0'}
    out = []

    def mk(host, form, local=None, tpath=('t',), broken=None, docs=None):
        d = clone(T)
        d['host'] = host
        return {'docs': docs or [d], 'plan': {'host_doc': 0, 'target_doc': 0, 'tpath': list(tpath), 'hpath': ['host'], 'form': form, 'local': local, 'broken': broken}, 'labels': ['fixed']}
    out.append(mk({'$merge': 't', 'own': 5}, 'map-merge', {'own': 5}))
    out.append(mk({'$merge': 't', 'x': 1}, 'map-merge', {'x': 1}))
    out.append(mk({'$merge': 't', 'x': 2}, 'map-merge', {'x': 2}))
    out.append(mk({'$merge': 't', 'z': {'v': 1}, 'y': [0]}, 'map-merge', {'z': {'v': 1}, 'y': [0]}))
    out.append(mk({'$merge': 't.y', 'q': 1}, 'map-merge', {'q': 1}, ('t', 'y')))
    out.append(mk('$merge:t.z', 'str-merge', None, ('t', 'z')))
    out.append(mk('$replace:t.y', 'str-replace', None, ('t', 'y')))
    out.append(mk({'$replace': ['t', 'z']}, 'map-replace', None, ('t', 'z')))
    out.append(mk([0, {'$merge': 't.y'}, 9], 'list-merge', [0, 9], ('t', 'y')))
    out.append(mk([{'$merge': 't.z'}], 'list-merge', [], ('t', 'z')))
    out.append(mk([{'$replace': 't.y'}], 'list-replace', None, ('t', 'y')))
    out.append(mk({'$merge': 't.nope'}, 'map-merge', {}, ('t', 'nope'), 'dangling'))
    out.append(mk('$merge:t.nope', 'str-merge', None, ('t', 'nope'), 'dangling'))
    for l in ([0, {'$merge': 'nope'}, 5, {'$merge': 'a'}], [{'$merge': 'a'}, {'$merge': 'nope'}], [{'$merge': 'nope'}, {'$merge': 'a'}, {'$merge': 'a'}], [{'$replace': 'nope'}, {'$merge': 'a'}]):
        out.append({'docs': [{'a': [1, 2], 'l': l}], 'expanded': [], 'multi': 'dangling-among-several', 'must_fail': True, 'labels': ['fixed', 'multi:dangling-among-several']})
    return out


def shrink(case):
    from ..shrink import shrink_tree
    if case.get('multi'):
        return
    docs, plan = case['docs'], case['plan']
    hd, td = plan['host_doc'], plan['target_doc']
    for di, d in enumerate(docs):
        for t in shrink_tree(d):
            if not isinstance(t, dict):
                continue
            try:
                if di == hd:
                    h = get_path(t, plan['hpath'])
                    if not veq(h, get_path(d, plan['hpath'])):
                        continue
                if di == td and not plan['broken']:
                    if not veq(get_path(t, plan['tpath']), get_path(d, plan['tpath'])):
                        continue
                if t.get('name') != d.get('name'):
                    continue
            except (KeyError, IndexError, TypeError):
                continue
            yield dict(case, docs=docs[:di] + [t] + docs[di + 1:])


def evaluate(ctx, res, docs, parser=0):
    ops = [{'op': 'merge_doc', 'id': 'd%d' % i, 'data': d, 'parser': parser} for i, d in enumerate(docs)]
    ops.append({'op': 'output_docs', 'parser': parser})
    ops.append({'op': 'output', 'format': 'json', 'parser': parser})
    return ops


def check_multi(ctx, res, case):
    docs, expanded = case['docs'], case['expanded']
    if case.get('must_fail'):
        # several list-form references in one list, one of them dangling: the evaluation must fail wherever the bad one stands
        resp = ctx.call(evaluate(ctx, res, docs, 0), res)
        if resp is None:
            return res.violate('crash', 'worker died', docs=docs)
        res.nontrivial = True
        if all(r['err'] is None and not r.get('panic') for r in resp['results']):
            return res.violate('error', 'a dangling reference among several list-form references did not fail', docs=docs, out=out_bytes(resp['results'][-1]).decode('utf-8', 'replace'))
        res.ev('required_failures')
        res.ev('multi_reference_documents')
        return res
    ops = evaluate(ctx, res, docs, 0) + evaluate(ctx, res, expanded, 1)
    resp = ctx.call(ops, res)
    if resp is None:
        return res.violate('crash', 'worker died', docs=docs)
    rs = resp['results']
    for r in rs:
        if r.get('panic'):
            return res.violate('crash', 'panic: ' + r['panic'][:300], docs=docs)
    n = len(docs) + 2
    rd, rp = rs[n - 1], rs[2 * n - 1]
    res.nontrivial = True
    if rp['err'] is not None:
        return res.skip('hand-expanded document does not evaluate: %s' % rp['err'])
    if rd['err'] is not None:
        return res.violate('inline', 'document with several references fails (%s), hand-expanded document succeeds' % rd['err'], docs=docs, expanded=expanded)
    if out_bytes(rd) != out_bytes(rp):
        return res.violate('inline', 'evaluation with several references differs from the hand-expanded document', docs=docs, expanded=expanded,
                           with_ref=out_bytes(rd).decode(), inline=out_bytes(rp).decode())
    if not veq(rs[n - 2].get('values'), rs[2 * n - 2].get('values')):
        return res.violate('inline', 'evaluated values (types) differ between references and hand-expanded document', docs=docs, expanded=expanded)
    res.ev('inline_agreed')
    res.ev('multi_reference_documents')
    res.labels.add('outcome:inline-equal')
    if case.get('i', 0) % 12 == 0:
        file_crosscheck(ctx, res, docs, True, out_bytes(rd), {'docs': docs}, random.Random(case.get('i', 0)))
    return res


def check_case(ctx, case):
    res = Result()
    res.labels.update(case.get('labels', []))
    if case.get('multi'):
        return check_multi(ctx, res, case)
    docs, plan = case['docs'], case['plan']
    hd, td = plan['host_doc'], plan['target_doc']
    form, broken = plan['form'], plan['broken']
    # hand expansion
    expect_fail = None
    dprime = None
    if broken:
        expect_fail = broken
    else:
        ref = clone(get_path(docs[td], plan['tpath']))
        if ref is None:
            res.labels.add('target:null')
            if form in ('map-merge', 'list-merge'):
                return res.skip('null referenced value merged onto local content (statement silent)')
        notes = model.Notes()
        try:
            if form == 'map-merge':
                exp = model.merge(plan['local'], ref, notes)
            elif form == 'list-merge':
                exp = model.merge(plan['local'], ref, notes)
            else:
                exp = ref
        except model.Reject as e:
            expect_fail = 'merge rules reject: ' + e.why
            exp = None
        if notes.unspec:
            return res.skip(notes.unspec[0])
        if notes.either and expect_fail is None:
            res.labels.add('either')
        if expect_fail is None:
            dprime = clone(docs)
            parent = get_path(dprime[hd], plan['hpath'][:-1])
            parent[plan['hpath'][-1]] = exp
            if plan.get('hpath2'):
                parent[plan['hpath2'][-1]] = clone(exp)
    # D without the host
    dminus = clone(docs)
    parent = get_path(dminus[hd], plan['hpath'][:-1])
    del parent[plan['hpath'][-1]]
    if plan.get('hpath2'):
        del parent[plan['hpath2'][-1]]
    ops = evaluate(ctx, res, docs, 0) + evaluate(ctx, res, dminus, 1)
    if dprime is not None:
        ops += evaluate(ctx, res, dprime, 2)
    resp = ctx.call(ops, res)
    if resp is None:
        return res.violate('crash', 'worker died', docs=docs, plan=plan)
    rs = resp['results']
    for r in rs:
        if r.get('panic'):
            return res.violate('crash', 'panic: ' + r['panic'][:300], docs=docs, plan=plan)
    n = len(docs) + 2
    rd, rm = rs[n - 1], rs[2 * n - 1]
    vd, vm = rs[n - 2], rs[2 * n - 2]
    res.nontrivial = True
    if expect_fail is not None:
        if rd['err'] is None:
            return res.violate('error', 'reference must fail (%s) but evaluation succeeded' % expect_fail, docs=docs, plan=plan, out=rd.get('out'))
        res.labels.add('outcome:failed-as-required')
        res.ev('required_failures')
        return res
    rp = rs[3 * n - 1]
    if (rd['err'] is None) != (rp['err'] is None):
        if rd['err'] is not None and 'either' in res.labels:
            return res
        return res.violate('inline', 'document with the reference %s, hand-expanded document %s' % (
            'fails (%s)' % rd['err'] if rd['err'] else 'succeeds', 'fails (%s)' % rp['err'] if rp['err'] else 'succeeds'), docs=docs, plan=plan, expanded=dprime)
    if rd['err'] is not None:
        res.labels.add('outcome:both-fail')
        res.nontrivial = False
        return res
    if out_bytes(rd) != out_bytes(rp):
        return res.violate('inline', 'evaluation with the reference differs from the hand-expanded document', docs=docs, plan=plan,
                           expanded=dprime, with_ref=out_bytes(rd).decode(), inline=out_bytes(rp).decode())
    if not veq(vd.get('values'), rs[3 * n - 2].get('values')):
        return res.violate('inline', 'evaluated values (types) differ between reference and hand-expanded document', docs=docs, plan=plan,
                           with_ref=vd.get('values'), inline=rs[3 * n - 2].get('values'))
    res.ev('inline_agreed')
    res.labels.add('outcome:inline-equal')
    if case.get('i', 0) % 12 == 0:
        if not file_crosscheck(ctx, res, docs, True, out_bytes(rd), {'docs': docs, 'plan': plan}, random.Random(case.get('i', 0))):
            return res
    # unchanged target: the target document's own output is the same with and without the host (when the host lives elsewhere)
    if rm['err'] is None and hd != td:
        a = [json.loads(l) for l in out_bytes(rd).decode().splitlines() if l.strip()]
        b = [json.loads(l) for l in out_bytes(rm).decode().splitlines() if l.strip()]
        # documents other than the host document must be identical
        if len(a) == len(b):
            diff = [i for i, (x, y) in enumerate(zip(a, b)) if not veq(x, y)]
            if len(diff) > 1:
                return res.violate('unchanged', 'planting a reference changed more than the host document', docs=docs, plan=plan, with_ref=a, without=b)
        res.ev('target_unchanged_checked')
    elif rm['err'] is None and hd == td:
        a = [json.loads(l) for l in out_bytes(rd).decode().splitlines() if l.strip()]
        b = [json.loads(l) for l in out_bytes(rm).decode().splitlines() if l.strip()]
        if len(a) == len(b) == len(docs):
            try:
                ta, tb = get_path(a[td], plan['tpath']), get_path(b[td], plan['tpath'])
                if not veq(ta, tb):
                    return res.violate('unchanged', 'the referenced subtree changed because it was referenced', docs=docs, plan=plan, with_ref=ta, without=tb)
                res.ev('target_unchanged_checked')
            except (KeyError, IndexError, TypeError):
                pass
    return res
