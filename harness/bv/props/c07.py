"""C07 No unresolved $required or stray directive ever reaches the output (marker monitors)."""
import json
import os

from ..core import crashed, Result, out_bytes, cli, scrub_env
from .. import gen, model, ser
from ..val import veq, clone, drop_nulls, strings_of, has_marker, is_directive_string, walk

ID = 'C07'
SIZES = {'quick': 20000, 'thorough': 3000000}
REQUIRED_EVENTS = ['marker_rejected', 'clean_success', 'outputs_scanned']
RULE = ('layer chains (1-3 layers, edit-based) into which markers are injected at arbitrary positions: $required values and list '
        'entries, known directives in wrong positions or with wrong argument types, unknown and misspelt $words as keys and values, '
        'markers under $output:false, inside $encode subtrees, and in YAML anchors reused by alias (file sub-sample). The reference '
        'merge model says where each marker ends up; a marker inside an output document must make evaluation fail '
        '($required alone: with the required-field error), a case with all markers overridden/hidden must succeed with the '
        'model output, and every successful output is scanned for $+lowercase strings. Non-trivial = at least one marker '
        'injected; distinct = distinct layer lists.')
ASSUMPTIONS = ['merge model and $output model in harness/bv/model.py',
               'which error is reported for markers other than $required is not judged']

# markers that can never be valid where they are injected (map value / list entry of a non-root container)
PASSIVE_VALUES = ['$required', '$foo', '$mtach', '$output', '$match', '$value', '$invert', '$encode', '$decode', '$delete2', '$requiredx', '$r',
                  '$encode:base64', '$output:false', '$repeat:3', '$required:x', '$foo:bar', '$delete.x', '$r-x', '$a b', '$match: {}', '$x\ny']
ACTIVE_VALUES = ['$repeat', '$env:VERIF_UNSET_VARIABLE', '$merge:no.such.path', '$replace:no.such.path']
PASSIVE_KEYS = [{'$mach:x': 1}, {'$foo bar': 1}, {'$output:false': 2}, {'$foo': 1}, {'$mtach': {'a': 1}}, {'$required': 1}, {'$invert': True, 'z': 1}, {'$output': 'yes'}, {'$output': 1}, {'$matchh': 1},
                {'$delete': 1, 'zz': 2}]
ACTIVE_KEYS = [{'$repeat': 'x', 'z': 1}, {'$repeat': 1.5}, {'$encode': 5, 'z': 1}, {'$encode': 'nosuchformat', 'z': 1}, {'$decode': 'json'}, {'$value': 1, 'extra': 2},
               {'$merge': 5}, {'$replace': 5}, {'$merge': 'no.such.path'}, {'$decode': 'json', '$value': 5}]
CONTROLS = ['$Required', '$FOO', '$', '$1', 'a$required', '${required}']   # not markers: must pass through


def inject(rng, t, labels, hidden_ok=True, keypool=None):
    """Put 1-3 markers into tree t (a map). Returns the number injected."""
    conts = [(p, n) for p, n in walk(t) if isinstance(n, (dict, list))]
    n = 0
    for _ in range(rng.randint(1, 3)):
        p, c = rng.choice(conts)
        r = rng.random()
        if r < 0.45:
            m = rng.choice(PASSIVE_VALUES) if rng.random() < 0.8 else rng.choice(ACTIVE_VALUES)
            labels.add('marker:' + ('required' if m == '$required' else 'passive-value' if m in PASSIVE_VALUES else 'active-value'))
        elif r < 0.8:
            m = clone(rng.choice(PASSIVE_KEYS) if rng.random() < 0.7 else rng.choice(ACTIVE_KEYS))
            labels.add('marker:key')
        else:
            m = rng.choice(CONTROLS)
            labels.add('marker:control')
        if isinstance(c, dict):
            free = [k for k in (keypool or gen.KEYS + ['f', 'g']) if k not in c]
            if not free:
                continue
            if isinstance(m, dict) and rng.random() < 0.3 and len(p) > 0 and not any(k in c for k in m):
                c.update(m)      # marker key directly in an existing map
                if rng.random() < 0.4:
                    c[rng.choice(['#', '!important', '', ' lead', '"q', '#c', '!'])] = 'low-sorting sibling'
                    labels.add('marker:with-low-sorting-sibling')
            else:
                c[rng.choice(free)] = m
        else:
            c.insert(rng.randint(0, len(c)), m)
        n += 1
    return n


def gen_scalar_doc(rng):
    """An output document that is a bare marker string (the whole document, a $value, a selected scalar)."""
    m = rng.choice(['$required', '$required', '$foo', '$mtach', '$replace', '$delete', '$match', '$output', '$r'])
    shape = rng.choice(['whole', 'value', 'selected', 'second-doc', 'value-layered', 'control'])
    if shape == 'whole':
        docs = [[m]]
    elif shape == 'value':
        docs = [[{'$value': m}]]
    elif shape == 'selected':
        docs = [[{'a': 1, 'sel': {'$output': True, '$value': m}}]]
    elif shape == 'second-doc':
        docs = [[{'name': 'first'}], [m]]
    elif shape == 'value-layered':
        docs = [[{'$value': m}, {'$match': None, 'name': 'second'}]]
    else:
        m = rng.choice(CONTROLS + ['plain', '$$required'])
        docs = [[rng.choice([m, {'$value': m}])]]
    return {'mode': 'scalar-doc', 'chains': docs, 'marker': m, 'shape': shape, 'layers': [], 'labels': ['mode:scalar-doc', 'scalar-doc:' + shape]}


def check_scalar_doc(ctx, case, res):
    ops = []
    for ci, chain in enumerate(case['chains']):
        for li, l in enumerate(chain):
            ops.append({'op': 'merge_doc', 'id': 'C%dL%d' % (ci, li), 'parents': ['C%dL%d' % (ci, li - 1)] if li else [], 'data': l})
    ops += [{'op': 'output', 'format': 'json'}, {'op': 'output', 'format': 'yaml'}]
    resp = ctx.call(ops, res)
    if resp is None:
        return res.violate('crash', 'worker died', case=case)
    rs = resp['results']
    for r in rs:
        if r.get('panic'):
            return res.violate('crash', 'panic: ' + r['panic'][:300], case=case)
    res.nontrivial = True
    failed = any(r['err'] is not None for r in rs[:-1])
    if case['shape'] == 'control':
        if failed:
            return res.violate('expect', 'a scalar document that is not a marker was rejected: %s' % next(r['err'] for r in rs if r['err']), case=case)
        res.ev('clean_success')
        return res
    for o in rs[-2:]:
        if o['err'] is None and case['marker'] in out_bytes(o).decode():
            return res.violate('scan', 'successful output contains the unresolved marker %s as a scalar document' % case['marker'], case=case, out=out_bytes(o).decode())
    if not failed:
        return res.violate('expect', 'a marker is an output document by itself but evaluation succeeded', case=case, out=out_bytes(rs[-2]).decode())
    res.ev('marker_rejected')
    res.labels.add('outcome:marker-rejected')
    return res


def gen_case(rng, i, tier):
    if rng.random() < 0.03:
        return gen_scalar_doc(rng)
    labels = set()
    nl = rng.choice([1, 2, 2, 3])
    mode = rng.choice(['marker', 'marker', 'required', 'hidden', 'encode', 'selected-elsewhere'])
    labels.add('mode:' + mode)
    base = gen.tree(rng, 3, 3, nulls=False, root='map')
    if mode == 'required':
        conts = [(p, n) for p, n in walk(base) if isinstance(n, dict)]
        for _ in range(rng.randint(1, 2)):
            p, c = rng.choice(conts)
            k = rng.choice(gen.KEYS)
            c[k] = '$required' if rng.random() < 0.6 else ['$required']
        labels.add('marker:required')
    late = mode == 'marker' and rng.random() < 0.5
    if mode == 'marker' and not late:
        inject(rng, base, labels)
    layers = [base]

    def fold1(cur, ch):
        try:
            return model.merge(cur, ch, model.Notes())
        except model.Reject:
            return None
    cur = base
    for _ in range(nl - 1):
        ch = gen.child_of(rng, cur, labels, 0, 0.0)
        if mode == 'required' and isinstance(ch, dict) and rng.random() < 0.15:
            lk = [k for k, v in ch.items() if isinstance(v, list)]
            if lk:
                ch[rng.choice(lk)].insert(0, '$required')
                labels.add('edit:required-restated-in-upper-list')
        if mode == 'required' and isinstance(ch, dict) and isinstance(cur, dict) and rng.random() < 0.3:
            ks = [k for k, v in cur.items() if v == ['$required'] or v == '$required']
            if ks:
                ch[rng.choice(ks)] = None
                labels.add('edit:null-over-required')
        if mode == 'marker' and isinstance(ch, dict) and rng.random() < 0.4:
            inject(rng, ch, labels)
        layers.append(ch)
        nxt = fold1(cur, ch)
        if nxt is None:
            break
        cur = nxt
    if late:
        # markers placed after the upper layers were derived: no upper layer touches them
        inject(rng, base, labels, keypool=['mk1', 'mk2', 'mk3', 'mk4'])
        labels.add('marker:untouched-by-upper-layers')
    if mode == 'selected-elsewhere':
        # the document selects a clean subtree; passive markers sit in the unselected remainder
        sel = gen.tree(rng, 2, 3, root='map')
        sel['$output'] = True
        base[rng.choice(['h', 'i'])] = sel
        rest = gen.tree(rng, 1, 2, root='map')
        rest[rng.choice(['f', 'g'])] = rng.choice(['$required', '$foo', ['$required'], {'$mtach': 1}])
        base[rng.choice(['j', 'k'])] = rest
        labels.add('marker:outside-selection')
    if mode == 'hidden':
        # wrap a subtree with markers under $output:false in the base
        sub = gen.tree(rng, 2, 3, root='map')
        clean_hidden = rng.random() < 0.25
        if not clean_hidden:
            inject(rng, sub, labels)
        sub['$output'] = False
        if rng.random() < 0.35:
            inner = gen.tree(rng, 1, 2, root='map')
            if rng.random() < 0.7:
                inject(rng, inner, labels)
            inner['$output'] = True
            sub[rng.choice(['f', 'g'])] = inner if rng.random() < 0.7 else [inner]
            labels.add('marker:selected-inside-hidden')
        if clean_hidden:
            # nothing invalid anywhere: the hidden part sits below a list entry / deeper in maps and must simply disappear
            base[rng.choice(['h', 'i'])] = rng.choice([[{'w': sub}, 1], {'w': [{'x': sub, 'keep': 1}]}, {'w': {'x': sub}}, [[{'w': sub}]]])
            labels.add('marker:clean-hidden-below-list-entry')
        else:
            base[rng.choice(['h', 'i'])] = sub if rng.random() < 0.7 else [sub, 1]
        labels.add('marker:hidden')
    if mode == 'encode':
        sub = gen.tree(rng, 1, 3, root='map')
        sub[rng.choice(['f', 'g'])] = rng.choice(PASSIVE_VALUES[:3])
        if rng.random() < 0.35:
            sub = {'$value': rng.choice(PASSIVE_VALUES[:3] + [['$required'], [1, '$foo']])}       # the marker is the encoded value itself
        sub['$encode'] = rng.choice(['json', 'yaml', 'base64', 'toml'])
        base[rng.choice(['h', 'i'])] = sub
        labels.add('marker:in-encode')
    return {'layers': layers, 'labels': sorted(labels), 'mode': mode, 'file': (i % 53 == 0)}


def fixed_cases(tier):
    out = []
    B = {'a': 1, 'm': {'x': 1}, 'l': [1, 2]}
    for v in PASSIVE_VALUES + ACTIVE_VALUES + CONTROLS:
        for pos in ('mapval', 'listentry', 'deep'):
            b = clone(B)
            if pos == 'mapval':
                b['k'] = v
            elif pos == 'listentry':
                b['l'].append(v)
            else:
                b['m']['d'] = {'e': [v]}
            out.append({'layers': [b], 'labels': ['fixed'], 'mode': 'marker', 'file': True})
    for m in PASSIVE_KEYS:
        for low in ('#', '!important', '', ' lead'):
            b = clone(B)
            b['k'] = dict(clone(m), **{low: 'x'})
            out.append({'layers': [b], 'labels': ['fixed', 'marker:with-low-sorting-sibling'], 'mode': 'marker', 'file': False})
    for m in PASSIVE_KEYS + ACTIVE_KEYS:
        b = clone(B)
        b['k'] = clone(m)
        out.append({'layers': [b], 'labels': ['fixed'], 'mode': 'marker', 'file': False})
        b = clone(B)
        b['l'].append(clone(m))
        out.append({'layers': [b], 'labels': ['fixed'], 'mode': 'marker', 'file': False})
    R = {'a': '$required', 'm': {'x': '$required', 'y': 1}, 'l': ['$required'], 'n': {'o': ['$required', 5]}}
    kids = [{}, {'a': 2}, {'a': 2, 'm': {'x': 3}, 'l': [1], 'n': {'o': [6]}}, {'m': {'y': 2}}, {'l': [1]}, {'n': {'o': [1]}}, {'a': {'q': 1}},
            {'a': 2, 'm': {'x': 3}, 'l': [1]}, {'a': 2, 'm': {'$replace': True, 'z': 1}, 'l': [1], 'n': {'o': [6]}}, {'a': 2, 'm': {'x': 3}, 'l': [1], 'n': '$delete'}]
    for k in kids:
        out.append({'layers': [clone(R), k], 'labels': ['fixed', 'marker:required'], 'mode': 'required', 'file': True})
    # $required re-stated or contributed by an upper layer's list
    out.append({'layers': [{'l': ['alpha']}, {'l': ['$required', 'beta']}], 'labels': ['fixed', 'marker:required'], 'mode': 'required', 'file': True})
    out.append({'layers': [{'l': ['$required']}, {'l': ['$required']}, {'z': 1}], 'labels': ['fixed', 'marker:required'], 'mode': 'required', 'file': True})
    out.append({'layers': [{'l': ['$required', '$required']}, {'l': ['x']}], 'labels': ['fixed', 'marker:required'], 'mode': 'required', 'file': True})
    for f in ('json', 'yaml', 'base64'):
        out.append({'layers': [{'e': {'$encode': f, '$value': '$required'}}], 'labels': ['fixed', 'marker:in-encode'], 'mode': 'encode', 'file': False})
    return out


def shrink(case):
    from ..shrink import shrink_tree
    if case.get('mode') == 'scalar-doc':
        return
    layers = case['layers']
    if len(layers) > 1:
        yield dict(case, layers=layers[:-1])
    for li in range(len(layers) - 1, -1, -1):
        for t in shrink_tree(layers[li]):
            if isinstance(t, dict):
                l2 = list(layers)
                l2[li] = t
                yield dict(case, layers=l2)


ACTIVE_STR = set(ACTIVE_VALUES)
ACTIVE_KEYSET = {'$repeat', '$encode', '$decode', '$value', '$merge', '$replace'}


def certainly_invalid(d):
    """Is this map, which carries an evaluation-directive key, still one of the injected invalid forms?
    (upper layers may have edited it into something valid)"""
    from ..val import seq
    if '$repeat' in d:
        return isinstance(d['$repeat'], (str, float)) and not isinstance(d['$repeat'], bool)
    if '$encode' in d:
        if seq(d['$encode'], 5) or seq(d['$encode'], 'nosuchformat'):
            return True
        # a valid transform over a subtree that still holds a marker: $encode validates its input
        rest = {k: v for k, v in d.items() if k != '$encode'}
        if set(rest.keys()) == {'$value'}:
            return has_marker(rest['$value'])
        return has_marker(rest)
    if '$decode' in d:
        return '$value' not in d or not isinstance(d['$value'], str)
    if '$value' in d:
        return len(d) > 1
    if '$merge' in d:
        return seq(d['$merge'], 5) or seq(d['$merge'], 'no.such.path')
    if '$replace' in d:
        return seq(d['$replace'], 5)
    return True


def uncertain(v):
    if isinstance(v, dict):
        if any(k in ACTIVE_KEYSET for k in v) and not certainly_invalid(v):
            return True
        return any(uncertain(x) for x in v.values())
    if isinstance(v, list):
        return any(uncertain(x) for x in v)
    return False


def has_active(v):
    """Markers that fail during evaluation wherever they are (also under $output:false)."""
    if isinstance(v, dict):
        return any(k in ACTIVE_KEYSET for k in v) or any(has_active(x) for x in v.values())
    if isinstance(v, list):
        return any(has_active(x) for x in v)
    return isinstance(v, str) and (v in ACTIVE_STR or v.startswith('$merge:') or v.startswith('$replace:') or v.startswith('$env:') or v == '$repeat')


def only_required(v):
    ms = [s for s in strings_of(v) if is_directive_string(s)]
    return bool(ms) and all(s == '$required' for s in ms)


def expectation(layers, policy):
    notes = model.Notes(null_policy=policy)
    e = {'notes': notes, 'rejected': None, 'merged': None}
    try:
        e['merged'] = model.fold(layers, notes)
    except model.Reject as ex:
        e['rejected'] = ex.why
    e['skip'] = notes.unspec[0] if notes.unspec else None
    if e['merged'] is not None and has_marker(e['merged']) and (drop_nulls(e['merged']) is None or not has_marker(drop_nulls(e['merged']))):
        e['skip'] = 'the only markers are directive keys with a null value (statement silent)'
    if e['merged'] is not None and uncertain(e['merged']):
        e['skip'] = 'an injected directive was edited by an upper layer into a possibly valid one'
    if e['merged'] is not None and not e['skip']:
        ev = drop_nulls(e['merged'])
        e['ev'] = ev
        e['outs'] = model.outputs(ev) if ev is not None else []
        e['visible'] = has_marker(e['outs'])
        e['active'] = has_active(ev)
    return e


def without_output_markers(v, entry=False):
    """The tree without its well-formed $output markers (map key with a boolean, list entry {$output: bool})."""
    if isinstance(v, dict):
        return {k: without_output_markers(x, False) for k, x in v.items() if not (k == '$output' and isinstance(x, bool) and not entry)}
    if isinstance(v, list):
        # a map with other keys next to $output that is a direct list entry is not a well-formed marker (not judged): it stays
        return [without_output_markers(x, True) for x in v if not (isinstance(x, dict) and len(x) == 1 and isinstance(x.get('$output'), bool))]
    return v


def judge(e, real, res):
    """None if the observed run matches expectation e, else (monitor, message)."""
    failed = real['failed']
    if e['rejected'] is not None:
        if not failed:
            return ('expect', 'layering that the rules reject (%s) evaluated successfully' % e['rejected'])
        res.labels.add('outcome:merge-rejected')
        return None
    if e['visible'] or e['active']:
        if not failed:
            return ('expect', 'a marker lies in an output document but evaluation succeeded')
        res.labels.add('outcome:marker-rejected')
        res.ev('marker_rejected')
        if e['visible'] and not e['active'] and real['merr'] is None and only_required(e['outs']) and not only_required_misc(e['ev'], e['outs']):
            if 'ErrRequiredField' not in real['is']:
                return ('expect', 'unsatisfied $required reported as a different error: %s' % real['oerr'])
            res.ev('required_error_class_ok')
        return None
    if failed:
        if has_marker(without_output_markers(e['ev'])):
            # markers only in hidden parts: the statement does not demand success
            res.labels.add('outcome:hidden-marker-failed')
            res.ev('hidden_marker_failed')
            return None
        if e['notes'].either:
            return None
        return ('expect', 'no marker remains in any output document but evaluation failed: %s' % (real['merr'] or real['oerr']))
    if not veq(real['got'], e['outs'], loose=True):
        return ('expect', 'output differs from the model')
    res.labels.add('outcome:clean-success')
    res.ev('clean_success')
    return None


def check_case(ctx, case):
    res = Result()
    res.labels.update(case.get('labels', []))
    if case.get('mode') == 'scalar-doc':
        return check_scalar_doc(ctx, case, res)
    layers = case['layers']
    res.nontrivial = any(l.startswith('marker:') for l in case.get('labels', [])) or 'fixed' in case.get('labels', [])
    if any(isinstance(l, dict) and '$match' in l for l in layers):
        return res.skip('document-level $match (C02)')
    pols = model.null_policies()
    exps = [expectation(layers, pols[0])]
    if exps[0]['notes'].null_used:
        exps += [expectation(layers, p) for p in pols[1:]]
        res.labels.add('null-child:any-reading')
    if any(e['skip'] for e in exps):
        return res.skip(next(e['skip'] for e in exps if e['skip']))
    ops = []
    if case.get('i', 0) % 9 == 0:
        ops.append({'op': 'set_debug'})        # debug logging must not change what is accepted
        res.labels.add('debug-mode')
    for i, l in enumerate(layers):
        ops.append({'op': 'merge_doc', 'id': 'L%d' % i, 'parents': ['L%d' % (i - 1)] if i else [], 'data': l})
    ops.append({'op': 'output', 'format': 'json'})
    ops.append({'op': 'output', 'format': 'yaml'})
    resp = ctx.call(ops, res)
    if resp is None:
        return res.violate('crash', 'worker died', layers=layers)
    rs = resp['results']
    for r in rs:
        if r.get('panic'):
            return res.violate('crash', 'panic: ' + r['panic'][:300], layers=layers)
    merr = next((r['err'] for r in rs[:-2] if r['err'] is not None and 'unknown op' not in r['err']), None)
    o = rs[-2]
    real = {'merr': merr, 'oerr': o['err'], 'failed': merr is not None or o['err'] is not None, 'is': o.get('is') or [], 'got': None}
    # (a) universal scan of every successful output, whatever the expectation
    if not real['failed']:
        got = [json.loads(l) for l in out_bytes(o).decode().splitlines() if l.strip()]
        real['got'] = got
        res.ev('outputs_scanned')
        bad = [s for s in strings_of(got) if is_directive_string(s)]
        if bad:
            return res.violate('scan', 'successful output contains unresolved marker(s) %s' % bad[:3], layers=layers, got=got)
        y = rs[-1]
        if y['err'] is None and any(is_directive_string(s) for s in strings_of(ser.parse_yaml_stream(out_bytes(y).decode()))):
            return res.violate('scan', 'successful YAML output contains an unresolved marker', layers=layers)
    # (b) constructive expectation from the model (either reading of a null child is accepted)
    verdicts = [judge(e, real, res) for e in exps]
    if all(v is not None for v in verdicts):
        mon, msg = verdicts[0]
        return res.violate(mon, msg, layers=layers, merged=exps[0]['merged'], expect=exps[0].get('outs'), got=real['got'], err=real['merr'] or real['oerr'])
    e = exps[verdicts.index(None)]
    if case.get('file') and e['rejected'] is None and len(exps) == 1:
        file_check(ctx, case, res, e['visible'] or e['active'], e['outs'])
    return res


def only_required_misc(ev, outs):
    """True when something other than output validation could legitimately fail first (hidden markers)."""
    return has_marker(ev) and not only_required(ev)


def file_check(ctx, case, res, must_fail, outs):
    """The same chain as YAML files through the bkl binary; when possible a repeated subtree is written as anchor + alias."""
    layers = clone(case['layers'])
    texts = []
    for i, l in enumerate(layers):
        text = ser.to_yaml(l, style='quoted')
        if i == 0 and isinstance(l, dict):
            text = anchor_variant(l) or text
            if '&anc' in text:
                res.labels.add('via:yaml-anchor')
        texts.append(text)
    e2 = expectation(layers, model.null_policies()[0])     # the aliased copy is part of the logical tree now
    if e2['skip'] or e2['rejected'] is not None or e2['notes'].null_used:
        return
    must_fail, outs = e2['visible'] or e2['active'], e2['outs']
    d = ctx.casedir()
    name = 'a'
    for i, text in enumerate(texts):
        if i:
            name += '.l%d' % i
        with open(os.path.join(d, name + '.yaml'), 'w') as f:
            f.write(text)
    import random
    frng = random.Random(name + str(len(texts)) + texts[0][:40])
    dflag = [frng.choice(['-v', '--verbose'])] if frng.random() < 0.25 else []
    denv = scrub_env({'BKL_DEBUG': '1'}) if (not dflag and frng.random() < 0.15) else None
    r = cli([ctx.bin('bkl')] + dflag + ['-f', 'json', name + '.yaml'], cwd=d, env=denv)
    res.execs += 1
    res.labels.add('via:cli' + ('+debug' if dflag or denv else ''))
    if crashed(r.rc, r.err):
        res.violate('crash', 'bkl binary crashed rc=%s %s' % (r.rc, r.err[-200:]), layers=case['layers'])
    elif must_fail:
        if r.rc == 0:
            res.violate('cli', 'bkl binary succeeded although a marker lies in an output document', layers=case['layers'], stdout=r.out.decode('utf-8', 'replace'))
        elif r.out:
            res.violate('cli', 'bkl binary failed but wrote to stdout', layers=case['layers'])
        else:
            res.ev('cli_marker_rejected')
    elif r.rc == 0:
        got = [json.loads(l) for l in r.out.decode().splitlines() if l.strip()]
        if any(is_directive_string(s) for s in strings_of(got)):
            res.violate('scan', 'bkl binary output contains an unresolved marker', layers=case['layers'])
        elif not veq(got, outs, loose=True):
            res.violate('cli', 'bkl binary output differs from the model', layers=case['layers'], expect=outs, got=got)
        else:
            res.ev('cli_clean_success')
    ctx.cleanup_case(d)


def anchor_variant(l):
    """If some map value with a marker exists, write it once with an anchor and reuse it by alias under a second key."""
    for k, v in l.items():
        if isinstance(v, dict) and v and has_marker(v) and 'zalias' not in l:
            rest = {kk: vv for kk, vv in l.items() if kk != k}
            body = ser._yaml_map(v, 2, 'quoted', None)
            text = '%s: &anc\n%s' % (json.dumps(k), body)
            text += '"zalias": *anc\n'
            if rest:
                text += ser.to_yaml(rest, style='quoted')
            l['zalias'] = clone(v)   # the logical tree now contains the aliased copy
            return text
    return None
