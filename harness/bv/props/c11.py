"""C11 $output selects exactly the marked subtrees and hides exactly the excluded ones (reference-model monitor)."""
import itertools
import json

from ..core import Result, out_bytes, file_crosscheck
import random
from .. import gen, model
from ..val import veq, clone, strings_of, walk

ID = 'C11'
NEED_BINS = True
SIZES = {'quick': 6000, 'thorough': 1500000}
REQUIRED_EVENTS = ['outputs_agreed']
RULE = ('fixed part: every ordered tree shape with up to 4 (thorough: 5) containers x every assignment map/list x every assignment of '
        '{unmarked, $output:true, $output:false} to the containers (maps carry the marker as a key, lists as a marker entry; a map that is a '
        'direct list entry is never marked - not judged, see DESIGN.md); random part: larger random trees and 1-3 document streams. Every '
        'container holds a unique integer so outputs are identifiable. Expected = multiset of selected subtrees with markers removed and hidden '
        'subtrees cut (harness/bv/model.py outputs()); order is only required to be stable (3 evaluations, fresh parsers) and to follow '
        'document order. Non-trivial = at least one marker present; distinct = distinct document lists.')
ASSUMPTIONS = ['$output model in harness/bv/model.py', 'order inside one document is only checked for stability, not modelled']
EXHAUSTIVE = {'quick': False, 'thorough': False}


def shapes(n):
    """All ordered rooted trees with n nodes, as nested tuples of children."""
    if n == 1:
        return [()]
    out = []
    for parts in compositions(n - 1):
        for kids in itertools.product(*[shapes(p) for p in parts]):
            out.append(tuple(kids))
    return out


def compositions(n):
    if n == 0:
        return [[]]
    out = []
    for first in range(1, n + 1):
        for rest in compositions(n - first):
            out.append([first] + rest)
    return out


def count_nodes(shape):
    return 1 + sum(count_nodes(k) for k in shape)


def build(shape, kinds, marks, counter, parent_is_list=False):
    """Build the tree; kinds/marks are consumed in preorder. Returns tree or None when the combination is not judged."""
    kind = kinds.pop(0)
    mark = marks.pop(0)
    counter[0] += 1
    ident = counter[0]
    if kind == 'map':
        if parent_is_list and mark is not None:
            # consume the rest so that the caller stays aligned, then drop
            for k in shape:
                build(k, kinds, marks, counter, False)
            return None
        t = {'v': ident}
        if mark is not None:
            t['$output'] = mark
        ok = True
        for j, k in enumerate(shape):
            c = build(k, kinds, marks, counter, False)
            if c is None:
                ok = False
            t['k%d' % j] = c
        return t if ok else None
    t = [ident]
    ok = True
    for k in shape:
        c = build(k, kinds, marks, counter, True)
        if c is None:
            ok = False
        t.append(c)
    if mark is not None:
        t.insert(0 if ident % 2 else len(t), {'$output': mark})
        if ident % 5 == 0:
            t.insert(len(t) // 2, {'$output': mark})        # the same marker twice (lists concatenate when layered)
    return t if ok else None


_FIXED = {}


def fixed_cases(tier):
    if tier in _FIXED:
        return _FIXED[tier]
    out = []
    maxn = 4 if tier == 'quick' else 5
    for n in range(1, maxn + 1):
        for sh in shapes(n):
            for kinds in itertools.product(['map', 'list'], repeat=n):
                for marks in itertools.product([None, True, False], repeat=n):
                    t = build(sh, list(kinds), list(marks), [0])
                    if t is None:
                        continue
                    out.append({'docs': [t], 'sweep': n})
    _FIXED[tier] = out
    return out


def rand_marked(rng, depth, counter, parent_is_list=False):
    counter[0] += 1
    ident = counter[0]
    r = rng.random()
    mark = rng.choice([None, None, None, True, True, False])
    if depth <= 0 or r < 0.15:
        return ident
    if r < 0.65:
        t = {'v': ident}
        if mark is not None and not parent_is_list:
            t['$output'] = mark
        for k in rng.sample(gen.KEYS, rng.randint(0, 3)):
            t[k] = rand_marked(rng, depth - 1, counter, False)
        return t
    t = [ident]
    for _ in range(rng.randint(0, 3)):
        t.append(rand_marked(rng, depth - 1, counter, True))
    if mark is not None:
        t.insert(rng.randint(0, len(t)), {'$output': mark})
        if rng.random() < 0.2:
            t.insert(rng.randint(0, len(t)), {'$output': mark})
        if rng.random() < 0.12:
            t.insert(rng.randint(0, len(t)), {'$output': not mark})
    return t


def gen_case(rng, i, tier):
    counter = [0]
    docs = []
    for _ in range(rng.choice([1, 1, 2, 3])):
        d = rand_marked(rng, rng.choice([2, 3, 4]), counter)
        if not isinstance(d, (dict, list)):
            d = {'v': d}
        if rng.random() < 0.15:
            # something that would be invalid as output, outside every selected and every hidden subtree: it is not
            # part of any output document, so it must not matter
            found = []
            model._find_outputs(d, found)
            junk = rng.choice(['$required', '$nosuch', '$required'])
            if found and isinstance(d, dict) and '$output' not in d:
                d['zz'] = junk
            elif found and isinstance(d, list) and not any(isinstance(x, dict) and '$output' in x for x in d):
                d.append(junk)
        docs.append(d)
    return {'docs': docs}


def shrink(case):
    from ..shrink import shrink_tree
    docs = case['docs']
    if len(docs) > 1:
        for i in range(len(docs)):
            yield dict(case, docs=docs[:i] + docs[i + 1:])
    for i, d in enumerate(docs):
        for t in shrink_tree(d):
            if isinstance(t, (dict, list)):
                yield dict(case, docs=docs[:i] + [t] + docs[i + 1:])


def ints_of(v):
    if isinstance(v, dict):
        for x in v.values():
            yield from ints_of(x)
    elif isinstance(v, list):
        for x in v:
            yield from ints_of(x)
    elif isinstance(v, int) and not isinstance(v, bool):
        yield v


def canon(v):
    return json.dumps(v, sort_keys=True)


def check_case(ctx, case):
    res = Result()
    docs = case['docs']
    nmarks = sum(1 for d in docs for s in strings_of(d) if s == '$output')
    res.nontrivial = nmarks > 0
    res.labels.add('docs:%d' % len(docs))
    res.labels.add('markers:%s' % (nmarks if nmarks < 4 else '4+'))
    if 'sweep' in case:
        res.labels.add('sweep:n=%d' % case['sweep'])
    if any(x in ('$required', '$nosuch') for x in strings_of(docs)):
        res.labels.add('invalid-value-outside-selection')
    both = False
    for d in docs:
        for p, n in walk(d):
            if isinstance(n, list) and any(isinstance(x, dict) and x == {'$output': True} for x in n) and any(isinstance(x, dict) and x == {'$output': False} for x in n):
                both = True
    expect = []
    expect_alt = []
    for d in docs:
        expect += model.outputs(d)
        expect_alt += model.outputs(d, both='selected')
    if both:
        res.labels.add('list-with-both-markers:either-reading')
    ops = []
    for rep in range(3):
        for i, d in enumerate(docs):
            ops.append({'op': 'merge_doc', 'id': 'D%d' % i, 'data': d, 'parser': rep})
        ops.append({'op': 'output', 'format': 'json', 'parser': rep})
    resp = ctx.call(ops, res)
    if resp is None:
        return res.violate('crash', 'worker died', docs=docs)
    rs = resp['results']
    outs = [r for r, o in zip(rs, ops) if o['op'] == 'output']
    for r in rs:
        if r.get('panic'):
            return res.violate('crash', 'panic: ' + r['panic'][:300], docs=docs)
        if r['err'] is not None:
            return res.violate('model', 'evaluation failed: %s' % r['err'], docs=docs, expect=expect)
    b0 = out_bytes(outs[0])
    if any(out_bytes(o) != b0 for o in outs[1:]):
        return res.violate('order', 'output differs between identical evaluations', docs=docs, outs=[out_bytes(o).decode() for o in outs])
    got = [json.loads(l) for l in b0.decode().splitlines() if l.strip()]
    if any(s == '$output' for s in strings_of(got)):
        return res.violate('model', 'a $output marker survived into the output', docs=docs, got=got)
    if both and sorted(canon(x) for x in got) == sorted(canon(x) for x in expect_alt):
        expect = expect_alt
    if sorted(canon(x) for x in got) != sorted(canon(x) for x in expect):
        return res.violate('model', 'output documents are not exactly the selected subtrees', docs=docs, expect=expect, got=got)
    # document order: outputs of document i come before those of document i+1
    owner = {}
    for di, d in enumerate(docs):
        for n in ints_of(d):
            owner[n] = di
    seq_ = []
    for o in got:
        ids = list(ints_of(o))
        if ids:
            seq_.append(owner[ids[0]])
    if seq_ != sorted(seq_):
        return res.violate('order', 'outputs do not follow document order', docs=docs, got=got)
    res.ev('outputs_agreed', len(got))
    if case.get('i', 0) % 15 == 0:
        if not file_crosscheck(ctx, res, docs, True, b0, {'docs': docs}, random.Random(case.get('i', 0))):
            return res
    if len(got) > 1:
        res.labels.add('multi-output')
    if not got:
        res.labels.add('nothing-output')
    return res


def extra_coverage(m):
    sweep = {k: v for k, v in m['labels'].items() if k.startswith('sweep:')}
    return {'sweep_cases_by_containers': sweep,
            'sweep_exhaustive_for': 'all shapes x kinds x marks up to the listed container count, minus the not-judged combinations (marked map as direct list entry)'}
