"""C16 bkli yields the maximal common base, and the migrate workflow is lossless (process-boundary reference + round-trip monitors)."""
import json
import os

from ..core import Result, cli
from .. import ser, edits, gen
from ..val import veq, clone, seq
from .c15 import roundtrip

ID = 'C16'
SIZES = {'quick': 1500, 'thorough': 80000}
REQUIRED_EVENTS = ['intersections_agreed', 'migrations_ok', 'self_intersections']
RULE = ('sets of 2-4 map-rooted, null-free, $-free trees derived from a common ancestor by the C15 edit scripts (list reordering/duplication, '
        'kind changes, retyped scalars) plus unrelated trees, in every generated argument order and format mix. The real bkli output R is '
        'compared with an independent intersection (lists as multisets of entries under deep equality, $required exactly where all inputs have '
        'the field with differing values/kinds, nothing shared dropped), bkli x x must decode to x, and for every input the real bkld from R '
        '(stored as a file) followed by the real bkl must reproduce the input exactly. Non-trivial = inputs not all equal; distinct = distinct '
        '(inputs, formats).')
ASSUMPTIONS = ['order of entries in intersected lists is not judged', 'own serializers validated against independent decoders']

FMTS = ['json', 'yaml', 'toml']


def gen_case(rng, i, tier):
    labels = set()
    n = rng.choice([2, 2, 3, 4])
    anc = edits.base_tree(rng)
    inputs = []
    for k in range(n):
        r = rng.random()
        if r < 0.1:
            inputs.append(clone(anc))
        elif r < 0.2:
            inputs.append(edits.base_tree(rng))
            labels.add('unrelated')
        else:
            inputs.append(edits.edit(rng, anc, labels, p=rng.choice([0.2, 0.35, 0.5])))
    if rng.random() < 0.08:
        inputs = [clone(inputs[0]) for _ in range(2)]
        labels.add('self')
    return {'inputs': inputs, 'fmts': [rng.choice(FMTS) for _ in range(n + 2)], 'labels': sorted(labels)}


def fixed_cases(tier):
    S = [[{'l': [1, 1]}, {'l': [1, 1]}], [{'l': []}, {'l': []}], [{'l': [1, 2]}, {'l': [2, 1]}], [{'l': [1, 1, 2]}, {'l': [1, 2, 2]}], [{'a': 3}, {'a': '3'}],
         [{'a': True}, {'a': 'true'}], [{'a': {}}, {'a': 5}], [{'a': []}, {'a': 5}], [{'a': []}, {'a': {}}], [{'a': {'b': 1}}, {'a': {'b': 1, 'c': 2}}, {'a': {'b': 2}}],
         [{'a': 1, 'b': {'c': [1]}}, {'a': 1, 'b': {'c': [2]}}], [{'a': [{'x': 1}, {'x': 1, 'y': 2}]}, {'a': [{'x': 1, 'y': 2}]}], [{'a': 1}, {'b': 2}], [{}, {'a': 1}],
         [{'k': [1]}, {'k': []}], [{'m': {'x': {}}}, {'m': {'x': {}}}]]
    out = []
    for s in S:
        for f in (['json'] * 6, ['yaml'] * 6, ['toml', 'json', 'yaml', 'toml', 'yaml', 'json']):
            out.append({'inputs': s, 'fmts': f[:len(s) + 2], 'labels': ['fixed']})
            if len(s) == 2:
                out.append({'inputs': [s[1], s[0]], 'fmts': f[:len(s) + 2], 'labels': ['fixed']})
    return out


def shrink(case):
    from ..shrink import shrink_tree
    ins = case['inputs']
    if len(ins) > 2:
        for i in range(len(ins)):
            yield dict(case, inputs=ins[:i] + ins[i + 1:], fmts=case['fmts'][:len(ins) + 1])
    for i, t0 in enumerate(ins):
        for t in shrink_tree(t0):
            if isinstance(t, dict):
                yield dict(case, inputs=ins[:i] + [t] + ins[i + 1:])


def canon(v):
    return json.dumps(v, sort_keys=True)


def ref_intersect(vals):
    """Independent statement of 'maximal common base' for values present in all inputs."""
    if all(isinstance(v, dict) for v in vals):
        out = {}
        for k in vals[0]:
            if all(k in v for v in vals):
                out[k] = ref_intersect([v[k] for v in vals])
        return out
    if all(isinstance(v, list) for v in vals):
        # multiset intersection under deep equality
        remaining = [list(v) for v in vals[1:]]
        out = []
        for e in vals[0]:
            idxs = []
            for r in remaining:
                j = next((j for j, x in enumerate(r) if veq(x, e)), None)
                if j is None:
                    break
                idxs.append(j)
            else:
                for r, j in zip(remaining, idxs):
                    r.pop(j)
                out.append(clone(e))
        if not out and any(len(v) for v in vals):
            return ['$required']
        return out
    if all(not isinstance(v, (dict, list)) for v in vals) and all(seq(v, vals[0]) for v in vals):
        return vals[0]
    return '$required'


def norm(v, top=True):
    """Order of entries in (intersected) lists is not judged."""
    if isinstance(v, dict):
        return {k: norm(x, False) for k, x in v.items()}
    if isinstance(v, list):
        return sorted((x for x in v), key=canon)
    return v


def check_case(ctx, case):
    res = Result()
    res.labels.update(case.get('labels', []))
    ins = case['inputs']
    fm = case['fmts']
    n = len(ins)
    res.labels.add('n:%d' % n)
    d = ctx.casedir()
    names = []
    for i, t in enumerate(ins):
        nm = 'in%d.%s' % (i, fm[i])
        with open(os.path.join(d, nm), 'w') as f:
            f.write(ser.write(fm[i], [t], style='quoted' if fm[i] == 'yaml' else None))
        names.append(nm)
    rf = fm[n]
    r = cli([ctx.bin('bkli'), '-f', rf] + names, cwd=d)
    res.execs += 1
    detail = {'inputs': ins, 'fmts': fm}
    if r.rc != 0:
        ctx.cleanup_case(d)
        return res.violate('common', 'bkli failed: %s' % r.err[-300:].decode('utf-8', 'replace'), **detail)
    try:
        docs = ser.parse(rf, r.out.decode())
    except Exception as e:
        ctx.cleanup_case(d)
        return res.violate('common', 'bkli output does not parse as %s: %s' % (rf, e), out=r.out.decode('utf-8', 'replace'), **detail)
    docs = [x for x in docs if x is not None] or [{}]
    if len(docs) != 1 or not isinstance(docs[0], dict):
        ctx.cleanup_case(d)
        return res.violate('common', 'bkli output is not one map document', out=r.out.decode('utf-8', 'replace'), **detail)
    R = docs[0]
    want = ref_intersect(ins)
    res.nontrivial = not all(veq(x, ins[0]) for x in ins)
    if not veq(norm(R), norm(want), loose=(rf != 'toml')):
        ctx.cleanup_case(d)
        return res.violate('common', 'bkli result is not the maximal common base of its inputs', expect=want, got=R, **detail)
    res.ev('intersections_agreed')
    if case.get('i', 0) % 5 == 2 and rf in ('json', 'yaml', 'toml'):
        # -o onto an existing, longer file: the file must hold exactly what stdout gets (format from the extension)
        oname = 'common-out.' + rf
        with open(os.path.join(d, oname), 'w') as f:
            f.write({'json': '{"old": 1}' + ' ' * 4000 + '\n', 'toml': 'old = 1\n' + '# pad\n' * 600}.get(rf, 'old: 1\n' + '# pad\n' * 600))
        ro = cli([ctx.bin('bkli'), '-o', oname] + names, cwd=d)
        res.execs += 1
        held = open(os.path.join(d, oname), 'rb').read() if ro.rc == 0 else None
        if held != r.out or ro.out:
            ctx.cleanup_case(d)
            return res.violate('common', 'bkli -o onto an existing file does not leave exactly the result in it (rc=%s)' % ro.rc, stdout_version=r.out.decode('utf-8', 'replace'),
                               file=(held or b'').decode('utf-8', 'replace')[:500], **detail)
        res.ev('output_file_replaced')
    # any argument order must satisfy the same description
    if n > 2 or case.get('i', 0) % 3 == 0:
        import random
        perm = list(names)
        random.Random(case.get('i', 0)).shuffle(perm)
        if perm != names:
            rp = cli([ctx.bin('bkli'), '-f', 'json'] + perm, cwd=d)
            res.execs += 1
            try:
                Rp = ser.parse_json_stream(rp.out.decode()) if rp.rc == 0 else None
            except Exception:
                Rp = None
            Rp = [x for x in (Rp or []) if x is not None] or ([{}] if rp.rc == 0 else None)
            if Rp is None or len(Rp) != 1 or not veq(norm(Rp[0]), norm(want), loose=True):
                ctx.cleanup_case(d)
                return res.violate('common', 'bkli with the arguments in another order is not the maximal common base', order=perm, expect=want, got=Rp, **detail)
            res.ev('permuted_orders_agreed')
    if '$required' in json.dumps(R):
        res.labels.add('has-$required')
    # idempotence: bkli x x == x
    r2 = cli([ctx.bin('bkli'), '-f', 'json', names[0], names[0]], cwd=d)
    res.execs += 1
    if r2.rc != 0 or not veq(ser.parse_json_stream(r2.out.decode()) if r2.rc == 0 else None, [ins[0]], loose=True):
        ctx.cleanup_case(d)
        return res.violate('self', 'bkli x x is not x', x=ins[0], got=r2.out.decode('utf-8', 'replace'), err=r2.err.decode('utf-8', 'replace')[-200:])
    res.ev('self_intersections')
    # migration: base R (as written by bkli) + bkld(R, input) -> input
    basef = 'common.' + rf
    with open(os.path.join(d, basef), 'wb') as f:
        f.write(r.out)
    for i, t in enumerate(ins):
        ok = roundtrip(ctx, res, d, basef, t, fm[i], fm[n + 1], 'common', 'bkli base -> input %d' % i, dict(detail, base=R, target=t))
        if not ok:
            res.monitor = 'migrate'
            ctx.cleanup_case(d)
            return res
        os.unlink(os.path.join(d, 'common.diff.' + fm[n + 1]))
        res.ev('migrations_ok')
    ctx.cleanup_case(d)
    return res
