"""C20 bklb / kubectl-bkl rewrite only file arguments; all else passes through (wrapped-program-boundary monitor with a recording spy)."""
import base64
import json
import os
import shutil
import subprocess

from ..core import Result, cli, scrub_env
from .. import ser

ID = 'C20'
SIZES = {'quick': 600, 'thorough': 120000}
REQUIRED_EVENTS = ['args_passed_through', 'args_rewritten', 'failed_evaluations_blocked']
RULE = ('argument vectors of 0-8 arguments mixing flags, --opt=value (also --opt=<layer file>), plain words, empty and unicode strings, names of '
        'non-bkl files, existing layer files with parents, virtual names resolving to a layer of another format (also two names for the same '
        'layer), names with unsupported extensions, missing names, and layer files whose evaluation fails ($required left, missing parent '
        'layer, syntax error); invoked through a symlink spyb -> bklb and through kubectl-bkl with a spy named kubectl first on PATH. The spy '
        'records its exact argv and the bytes of every argument naming a file. Expected: same number and order of arguments, non-resolvable '
        'ones byte-identical, each resolvable one replaced by a path whose content equals `bkl <arg>` (format of the named extension), exit '
        'status of the wrapped program passed on; if any evaluation fails the spy must not have run and the wrapper exits non-zero. '
        'Non-trivial = at least one resolvable file argument; distinct = distinct (argv, via).')
ASSUMPTIONS = ['temp-file naming and clean-up are not judged; -.ext (stdin) arguments are not generated']

FORMATS = ['json', 'jsonl', 'json-pretty', 'toml', 'yaml', 'yml']

LAYERS = {
    'svc.yaml': {'addr': '127.0.0.1', 'name': 'myService', 'port': 8080, 'tags': ['a', 'b']},
    'svc.test.toml': {'port': 8081, 'extra': {'k': 'v'}},
    'svc.test.eu.json': {'region': 'eu', 'port': 8082},
    'db.json': {'host': 'db', 'n': [1, 2, 3]},
    'plain.yml': {'x': 1},
    'values[prod].yaml': {'env': 'prod', 'n': 1},
    'values[prod].eu.yaml': {'region': 'eu'},
    'star*name.json': {'s': 1},
    'q?.toml': {'q': 1},
    '-svc.yaml': {'dash': 1},
    '-svc.prod.yaml': {'prod': True},
    '--opt.json': {'looks': 'like a flag'},
}
BAD = {
    'bad-required.yaml': {'a': '$required'},
    'orphan.child.yaml': {'a': 1},                      # parent layer orphan.* does not exist
    'bad-parent.yaml': {'$parent': 'nosuchlayer', 'a': 1},
}
OTHERS = ['-x', '--opt=value', '--opt=svc.yaml', '--file', 'word', 'two words', '', 'ünï', '=', '--', '-', 'notes.txt', 'file.ini', 'missing.yaml', 'missing', 'svc', 'svc.', '.yaml',
          'dir/', 'dir', 'a=b.json', '--config=db.json', 'svc.test', 'notes.txt.yaml']
GOOD_ARGS = ['svc.yaml', 'svc.test.toml', 'svc.test.eu.json', 'db.json', 'plain.yml', 'svc.json', 'svc.toml', 'svc.test.json', 'svc.test.yaml', 'svc.test.yml', 'svc.test.jsonl', 'svc.test.json-pretty',
             'db.yaml', 'db.toml', 'plain.json', './svc.yaml', 'sub/../svc.test.toml', 'svc.test.eu.yaml', 'svc.test.eu.toml',
             'sub/svc.yaml', 'dir/svc.yaml', 'sub/svc.json', 'dir/db.json', 'sub/db.json', 'dir/svc.toml',
             'prod.yaml', 'prod.json', 'lnk.toml', 'lnk.yaml', 'sub/dblink.json', 'sub/dblink.yaml',
             'values[prod].yaml', 'values[prod].eu.yaml', 'values[prod].eu.json', 'values[prod].json', 'star*name.json', 'star*name.yaml', 'q?.toml', 'q?.json',
             '-svc.yaml', '-svc.prod.yaml', '-svc.prod.json', '-svc.json', '--opt.json', '--opt.yaml', './-svc.yaml']
BAD_ARGS = ['bad-required.yaml', 'bad-required.json', 'orphan.child.yaml', 'bad-parent.yaml', 'bad-parent.toml', 'syntax.json', 'syntax.yaml']


def gen_case(rng, i, tier):
    n = rng.randint(0, 8)
    argv = []
    for _ in range(n):
        r = rng.random()
        if r < 0.4:
            argv.append(rng.choice(GOOD_ARGS))
        elif r < 0.47:
            argv.append(rng.choice(BAD_ARGS))
        else:
            argv.append(rng.choice(OTHERS))
    if rng.random() < 0.15 and n >= 2:
        # two names for the same layer
        argv[0], argv[-1] = 'svc.test.toml', rng.choice(['svc.test.json', 'svc.test.yaml', 'svc.test.toml'])
    return {'argv': argv, 'via': rng.choice(['bklb', 'bklb', 'kubectl-bkl']), 'exit': rng.choice([0, 0, 0, 3, 7])}


def fixed_cases(tier):
    out = [{'argv': [], 'via': 'bklb', 'exit': 0}, {'argv': [], 'via': 'kubectl-bkl', 'exit': 0}]
    for a in GOOD_ARGS + BAD_ARGS + OTHERS:
        out.append({'argv': ['-v', a, '--mode=fast'], 'via': 'bklb', 'exit': 0})
    out.append({'argv': ['-v', 'svc.yaml', '--mode=fast', 'svc.json', 'notes.txt'], 'via': 'bklb', 'exit': 0})
    out.append({'argv': ['svc.test.toml', 'svc.test.json', 'svc.test.yaml', 'svc.test.toml'], 'via': 'kubectl-bkl', 'exit': 5})
    out.append({'argv': ['-v', 'svc.yaml', 'orphan.child.yaml', 'notes.txt'], 'via': 'bklb', 'exit': 0})
    out.append({'argv': ['-f', 'sub/svc.yaml', '-f', 'dir/svc.yaml', 'svc.yaml', '--dry-run'], 'via': 'bklb', 'exit': 0})
    out.append({'argv': ['dir/db.json', 'sub/db.json', 'db.json'], 'via': 'kubectl-bkl', 'exit': 0})
    return out


def shrink(case):
    a = case['argv']
    for i in range(len(a)):
        yield dict(case, argv=a[:i] + a[i + 1:])


def setup(d):
    for name, doc in list(LAYERS.items()) + list(BAD.items()):
        fmt = name.rsplit('.', 1)[-1]
        with open(os.path.join(d, name), 'w') as f:
            f.write(ser.write(fmt, [doc], None, 'quoted'))
    with open(os.path.join(d, 'syntax.json'), 'w') as f:
        f.write('{"a": [1, 2\n')
    with open(os.path.join(d, 'notes.txt'), 'w') as f:
        f.write('not a layer: {}\n')
    with open(os.path.join(d, 'file.ini'), 'w') as f:
        f.write('[x]\ny=1\n')
    os.makedirs(os.path.join(d, 'dir'))
    os.makedirs(os.path.join(d, 'sub'))
    # same base names in other directories, different content
    for sub, doc in (('sub', {'where': 'sub', 'port': 1}), ('dir', {'where': 'dir', 'port': 2})):
        with open(os.path.join(d, sub, 'svc.yaml'), 'w') as f:
            f.write(ser.write('yaml', [doc], None, 'quoted'))
        with open(os.path.join(d, sub, 'db.json'), 'w') as f:
            f.write(ser.write('json', [dict(doc, db=True)]))
    os.symlink('svc.yaml', os.path.join(d, 'prod.yaml'))                 # a symlink to a layer file (inherits from the target's name)
    os.symlink('svc.test.toml', os.path.join(d, 'lnk.toml'))
    os.symlink('../db.json', os.path.join(d, 'sub', 'dblink.json'))
    os.makedirs(os.path.join(d, 'tmp'))
    os.makedirs(os.path.join(d, 'pathdir'))


def resolvable(d, arg):
    """The documented rule: the extension names a supported format and a file with that stem exists under some supported extension."""
    if '.' not in os.path.basename(arg):
        return False
    stem, ext = arg.rsplit('.', 1)
    if ext not in FORMATS:
        return False
    if os.path.basename(stem) == '-':
        return False
    return any(os.path.exists(os.path.join(d, stem + '.' + e)) for e in FORMATS)


def check_case(ctx, case):
    res = Result()
    argv = case['argv']
    via = case['via']
    res.labels.add('via:' + via)
    res.labels.add('argc:%d' % len(argv))
    d = ctx.casedir()
    try:
        setup(d)
        pathdir = os.path.join(d, 'pathdir')
        links = os.path.join(d, 'links')
        os.makedirs(links, exist_ok=True)
        wrong = os.path.join(d, 'tmp', 'wrong-program-ran')
        how = 'abs'
        if via == 'bklb':
            # the wrapped program is the one PATH names (pathdir/spy); the symlink spyb lives elsewhere, next to a decoy of the same
            # name as the wrapped program, and is invoked by absolute path, by relative path, or found through PATH itself
            os.symlink(ctx.build.spy, os.path.join(pathdir, 'spy'))
            os.symlink(ctx.bin('bklb'), os.path.join(links, 'spyb'))
            with open(os.path.join(links, 'spy'), 'w') as f:
                f.write('#!/bin/sh\n: > "%s"\nexit 0\n' % wrong)
            os.chmod(os.path.join(links, 'spy'), 0o755)
            how = ['abs', 'rel', 'path'][case.get('i', 0) % 3]
            prog = {'abs': os.path.join(links, 'spyb'), 'rel': 'links/spyb', 'path': 'spyb'}[how]
            res.labels.add('invoked:' + how)
        else:
            os.symlink(ctx.build.spy, os.path.join(pathdir, 'kubectl'))
            prog = ctx.bin('kubectl-bkl')
        rec = os.path.join(d, 'tmp', 'spy-record.json')
        env = scrub_env({'SPY_OUT': rec, 'SPY_EXIT': str(case['exit']), 'TMPDIR': os.path.join(d, 'tmp')}, path_prefix=pathdir + ':' + links)
        # expectation per argument, from the real bkl binary
        expect = []
        any_fail = False
        nres = 0
        for a in argv:
            if resolvable(d, a):
                nres += 1
                r = cli([ctx.bin('bkl'), '--', a], cwd=d)
                res.execs += 1
                if r.rc != 0:
                    any_fail = True
                    expect.append(('fail', a))
                else:
                    expect.append(('file', r.out))
            else:
                expect.append(('same', a))
        res.nontrivial = nres > 0
        res.labels.add('resolvable:%d' % min(nres, 4))
        exe = shutil.which(prog, path=env['PATH']) if how == 'path' else prog
        p = subprocess.run([prog] + argv, executable=os.path.join(d, exe) if how == 'rel' else exe, cwd=d, env=env, stdout=subprocess.PIPE, stderr=subprocess.PIPE, timeout=120)
        res.execs += 1
        ran = os.path.exists(rec)
        detail = {'argv': argv, 'via': via, 'invoked': how, 'stderr': p.stderr.decode('utf-8', 'replace')[-300:]}
        if os.path.exists(wrong):
            return res.violate('passthrough', 'a program next to the symlink ran instead of the one PATH names', **detail)
        if p.returncode < 0 or b'panic:' in p.stderr:
            return res.violate('crash', 'wrapper died rc=%s' % p.returncode, **detail)
        if any_fail:
            res.labels.add('outcome:evaluation-fails')
            if ran:
                return res.violate('failure', 'the wrapped program ran although evaluation of a file argument fails', record=json.load(open(rec))['argv'], **detail)
            if p.returncode == 0:
                return res.violate('failure', 'wrapper exited 0 although evaluation of a file argument fails', **detail)
            res.ev('failed_evaluations_blocked')
            return res
        if not ran:
            return res.violate('passthrough', 'the wrapped program was not run (rc=%s)' % p.returncode, **detail)
        if p.returncode != case['exit']:
            return res.violate('passthrough', 'exit status %s is not the wrapped program\'s %s' % (p.returncode, case['exit']), **detail)
        r = json.load(open(rec))
        got = [base64.b64decode(x) for x in r['argv']][1:]
        files = {base64.b64decode(k): base64.b64decode(v) for k, v in r['files'].items()}
        if len(got) != len(argv):
            return res.violate('passthrough', 'wrapped program received %d arguments instead of %d' % (len(got), len(argv)), received=[g.decode('utf-8', 'replace') for g in got], **detail)
        for i, (a, (kind, val), g) in enumerate(zip(argv, expect, got)):
            if kind == 'same':
                if g != a.encode():
                    return res.violate('passthrough', 'argument %d (%r) was not passed byte-for-byte: received %r' % (i, a, g), **detail)
                res.ev('args_passed_through')
            else:
                if g == a.encode():
                    return res.violate('rewrite', 'file argument %d (%s) was not replaced' % (i, a), **detail)
                if g not in files:
                    return res.violate('rewrite', 'argument %d (%s) was replaced by %r which is not a readable file' % (i, a, g), **detail)
                if files[g] != val:
                    return res.violate('rewrite', 'file for argument %d (%s) does not hold the evaluation in the format of the named extension' % (i, a),
                                       expect=val.decode('utf-8', 'replace'), got=files[g].decode('utf-8', 'replace'), **detail)
                res.ev('args_rewritten')
        res.labels.add('outcome:ran')
    finally:
        ctx.cleanup_case(d)
    return res
