"""C19 Producing output is a pure observation of parser state (history monitor with a replayed control parser)."""
import json

from ..core import Result, out_bytes
from .. import gen, model
from ..val import veq, clone

ID = 'C19'
NEED_BINS = False
SIZES = {'quick': 5000, 'thorough': 600000}
REQUIRED_EVENTS = ['I1_snapshots', 'I2_repeats', 'I3_controls', 'I4_unevaluated']
RULE = ('histories of up to 8 (thorough 12) API calls from {MergeDocument (new document / child layer of an earlier one), Documents, '
        'Output(json|yaml|toml|json-pretty), OutputDocuments, OutputToWriter} over documents that use $merge, $replace (same- and cross-document), '
        '$repeat (document level, named, nested), $encode/$decode, $output and interpolation. Monitors: (I1) Documents() snapshot before = after '
        'every output call; (I2) every output call issued twice in a row returns identical bytes and status; (I3) a control parser that '
        'replays only the merge calls ends with the same Documents(), the same merge statuses and the same output; (I4) Documents() of '
        'parent-less documents still equals the unevaluated input. Non-trivial = the history has an output call followed by a later call '
        'and at least one directive; distinct = distinct histories.')
ASSUMPTIONS = ['mutation of caller-owned patch documents is not judged']

FORMATS = ['json', 'yaml', 'toml', 'json-pretty', 'jsonl']


def gen_case(rng, i, tier):
    labels = set()
    maxlen = 8 if tier == 'quick' else 12
    ndocs = rng.choice([1, 1, 2, 3])
    docs = [gen.evaldoc(rng, k, ndocs, labels) for k in range(ndocs)]
    hist = []
    merged = []
    pending = list(range(ndocs))
    n = rng.randint(3, maxlen)
    while len(hist) < n:
        r = rng.random()
        if pending and (r < 0.35 or not merged):
            k = pending.pop(0)
            hist.append({'call': 'merge', 'id': 'd%d' % k, 'data': docs[k], 'parents': []})
            merged.append(k)
        elif r < 0.5 and merged:
            k = rng.choice(merged)
            ch = gen.child_of(rng, docs[k], labels, 0, 0.0)
            if not isinstance(ch, dict):
                ch = {'added': 1}
            ch.pop('$match', None)
            if rng.random() < 0.25:
                # a document-level $match patch that brings the first directive into a document
                ch = {'$match': {'name': 'd%d' % k}, 'viamatch': {'$merge': 't.z', 'mine': 1}}
                labels.add('hist:doc-$match-patch')
            elif rng.random() < 0.08:
                ch = {'$match': None, 'name': 'appended', 't': {'z': {'w': 1}}, 'h': {'$merge': 't.z', 'own': 1}}
                labels.add('hist:doc-$match-null')
            if isinstance(docs[k].get('$repeat'), dict) and rng.random() < 0.5:
                # the layer renames / removes a repeat dimension that strings of the document may still refer to
                ch = rng.choice([{'$repeat': {'$replace': True, 'c': 2}}, {'$repeat': {'a': '$delete', 'c': 1}}, {'$repeat': {'b': '$delete'}}])
                labels.add('hist:repeat-dimension-renamed')
            elif rng.random() < 0.3 and '$match' not in ch:
                ch = {'t': {'z': {'w': False}}} if rng.random() < 0.5 else {'t': {'x': 'changed'}}
            hist.append({'call': 'merge', 'id': 'c%d' % len(hist), 'data': ch, 'parents': ['d%d' % k]})
            labels.add('hist:layer-after')
        elif r < 0.6:
            hist.append({'call': 'documents'})
        elif r < 0.85:
            hist.append({'call': 'output', 'format': rng.choice(FORMATS)})
        elif r < 0.93:
            hist.append({'call': 'output_docs'})
        else:
            hist.append({'call': 'to_writer', 'format': rng.choice(['', 'json', 'yaml'])})
    from .c08 import bound_repeat
    for h in hist:
        if h['call'] == 'merge':
            bound_repeat(h['data'])        # legitimately huge expansions are not what this property is about
    return {'hist': hist, 'labels': sorted(labels), 'files': i % 4 == 0}


def fixed_cases(tier):
    out = []
    D = [{'$repeat': 2, 'a': '$repeat'}, {'h': {'$merge': 't', 'y': 2}, 't': {'x': 1}}, {'l': [{'$merge': 't', 'y': 2}, 1], 't': {'x': 1}},
         {'rl': [{'$repeat': 2, 'i': '$repeat'}]}, {'$repeat': {'a': 2}, 'v': '$"{$repeat:a}"'}, {'e': {'$encode': 'json', 'k': 1}}, {'o': {'$output': True, 'p': 1}, 'q': 2},
         {'i': '$"x{t.x}"', 't': {'x': 1}}, {'h': '$merge:t', 't': {'x': {'$merge': 'u'}}, 'u': {'k': 1}}]
    RC = {'$repeat': {'shard': 2}, 'v': '$"{$repeat.shard}"'}
    for lay in ({'$repeat': {'$replace': True, 'replica': 3}}, {'$repeat': {'shard': '$delete', 'replica': 1}}):
        out.append({'hist': [{'call': 'merge', 'id': 'd0', 'data': RC, 'parents': []}, {'call': 'output', 'format': 'json'},
                             {'call': 'merge', 'id': 'c1', 'data': lay, 'parents': ['d0']}, {'call': 'output', 'format': 'json'}], 'labels': ['fixed']})
    for d in D:
        for f in ('json', 'yaml'):
            out.append({'hist': [{'call': 'merge', 'id': 'd0', 'data': d, 'parents': []}, {'call': 'output', 'format': f}, {'call': 'output', 'format': 'json'},
                                 {'call': 'merge', 'id': 'c1', 'data': {'zz': 1}, 'parents': ['d0']}, {'call': 'output', 'format': f}], 'labels': ['fixed']})
    # keys that evaluate to the same string: whichever wins, repeated output must not change
    K = {'tier': 'web', 'region': 'eu', 'm': {'$"{tier}-{region}"': 1, 'web-eu': 2, '$"{tier}-eu"': 3}, 'l': [{'$"{tier}"': 'a', 'web': 'b'}]}
    out.append({'hist': [{'call': 'merge', 'id': 'd0', 'data': K, 'parents': []}] + [{'call': 'output', 'format': f} for f in ('json', 'yaml', 'json', 'json-pretty', 'json', 'yaml')], 'labels': ['fixed']})
    # cross-document targets evaluated in either order
    A = {'name': 'a', 'h': {'$replace': {'$match': {'name': 'b'}, '$path': 't'}}, 'ctx': {'v': 'from-a'}}
    B = {'name': 'b', 't': {'n': {'$merge': 'ctx', 'own': 1}}, 'ctx': {'v': 'from-b'}}
    for order in ([A, B], [B, A]):
        out.append({'hist': [{'call': 'merge', 'id': 'd0', 'data': order[0], 'parents': []}, {'call': 'merge', 'id': 'd1', 'data': order[1], 'parents': []},
                             {'call': 'output', 'format': 'json'}, {'call': 'documents'}, {'call': 'output', 'format': 'yaml'},
                             {'call': 'merge', 'id': 'c1', 'data': {'$match': {'name': 'b'}, 'ctx': {'v': 'changed'}}, 'parents': []}, {'call': 'output', 'format': 'json'}], 'labels': ['fixed']})
    # the string form of a cross-document $merge whose target still holds a map-form $merge: output must not expand it in the other document's stored tree
    SB = {'name': 'base', 'defaults': {'port': 80}, 'conf': {'$merge': 'defaults', 'tls': True}}
    SU = {'name': 'user', 'defaults': {'port': 1}, 'svc': '$merge:[{name: base}, conf]', 'alt': '$replace:[{name: base}, conf]'}
    for order in ([SB, SU], [SU, SB]):
        out.append({'hist': [{'call': 'merge', 'id': 'd0', 'data': order[0], 'parents': []}, {'call': 'merge', 'id': 'd1', 'data': order[1], 'parents': []},
                             {'call': 'documents'}, {'call': 'output', 'format': 'json'}, {'call': 'documents'}, {'call': 'output', 'format': 'yaml'}, {'call': 'output', 'format': 'json'},
                             {'call': 'merge', 'id': 'c1', 'data': {'$match': {'name': 'base'}, 'defaults': {'port': 81}}, 'parents': []}, {'call': 'output', 'format': 'json'}], 'labels': ['fixed']})
    return out


def shrink(case):
    h = case['hist']
    for i in range(len(h) - 1, -1, -1):
        h2 = h[:i] + h[i + 1:]
        if any(x['call'] == 'merge' for x in h2):
            yield dict(case, hist=h2)
    from ..shrink import shrink_tree
    for i, x in enumerate(h):
        if x['call'] == 'merge':
            for t in shrink_tree(x['data']):
                if isinstance(t, dict):
                    yield dict(case, hist=h[:i] + [dict(x, data=t)] + h[i + 1:])


def check_case(ctx, case):
    res = Result()
    res.labels.update(case.get('labels', []))
    hist = case['hist']
    ops = []
    tags = []

    def add(op, tag):
        ops.append(op)
        tags.append(tag)
    files = bool(case.get('files')) and all(isinstance(h.get('data', {}), dict) for h in hist)
    fdir = None
    paths = {}
    if files:
        # the same history through MergeFileLayers: every merged document becomes a layer file (children by filename inheritance)
        import os, random
        from .. import ser
        frng = random.Random(json.dumps(hist, sort_keys=True, default=str))
        fdir = ctx.casedir()
        res.labels.add('via:MergeFileLayers')
        for hi, h in enumerate(hist):
            if h['call'] != 'merge':
                continue
            ext = frng.choice(['json', 'yaml', 'toml'])
            if ext == 'toml' and not ser.toml_ok(h['data']):
                ext = 'yaml'
            stem = h['id'] if not h['parents'] else '%s.%s' % (h['parents'][0], h['id'])
            paths[hi] = os.path.join(fdir, stem + '.' + ext)
            with open(paths[hi], 'w') as f:
                f.write(ser.write(ext, [h['data']], frng))
    for hi, h in enumerate(hist):
        c = h['call']
        if c == 'merge' and files:
            add({'op': 'merge_layers', 'path': paths[hi], 'parser': 0}, ('merge', hi))
        elif c == 'merge':
            add({'op': 'merge_doc', 'id': h['id'], 'parents': h['parents'], 'data': h['data'], 'parser': 0}, ('merge', hi))
        elif c == 'documents':
            add({'op': 'documents', 'parser': 0}, ('docs', hi))
        else:
            o = {'op': c, 'parser': 0}
            if 'format' in h:
                o['format'] = h['format']
            add({'op': 'documents', 'parser': 0}, ('before', hi))
            add(o, ('out1', hi))
            add({'op': 'documents', 'parser': 0}, ('mid', hi))
            add(o, ('out2', hi))
            add({'op': 'documents', 'parser': 0}, ('after', hi))
    add({'op': 'documents', 'parser': 0}, ('final-docs', -1))
    add({'op': 'output', 'format': 'json', 'parser': 0}, ('final-out', -1))
    add({'op': 'output', 'format': 'yaml', 'parser': 0}, ('final-out-yaml', -1))
    # control: merges only
    for hi, h in enumerate(hist):
        if h['call'] == 'merge' and files:
            add({'op': 'merge_layers', 'path': paths[hi], 'parser': 1}, ('ctl-merge', hi))
        elif h['call'] == 'merge':
            add({'op': 'merge_doc', 'id': 'ctl:' + h['id'], 'parents': ['ctl:' + p for p in h['parents']], 'data': h['data'], 'parser': 1}, ('ctl-merge', hi))
    add({'op': 'documents', 'parser': 1}, ('ctl-docs', -1))
    add({'op': 'output', 'format': 'json', 'parser': 1}, ('ctl-out', -1))
    add({'op': 'output', 'format': 'yaml', 'parser': 1}, ('ctl-out-yaml', -1))
    resp = ctx.call(ops, res)
    if fdir:
        ctx.cleanup_case(fdir)
    if resp is None:
        return res.violate('crash', 'worker died', hist=hist)
    rs = resp['results']
    by = {}
    for t, r in zip(tags, rs):
        if r.get('panic'):
            return res.violate('crash', 'panic in %s: %s' % (t, r['panic'][:300]), hist=hist)
        by[t] = r

    def docs_of(r):
        return [(d['id'].replace('ctl:', ''), d['data']) for d in r['docs']]

    def same_out(a, b):
        if (a['err'] is None) != (b['err'] is None):
            return False
        if a['err'] is not None:
            return True
        if 'values' in a or 'values' in b:
            return veq(a.get('values'), b.get('values'))
        return out_bytes(a) == out_bytes(b)
    nout = 0
    seen_output = False
    later_after_output = False
    for hi, h in enumerate(hist):
        c = h['call']
        if c in ('merge', 'documents'):
            if seen_output:
                later_after_output = True
            continue
        seen_output = True
        nout += 1
        b, m, a = by[('before', hi)], by[('mid', hi)], by[('after', hi)]
        if not veq(docs_of(b), docs_of(m)) or not veq(docs_of(b), docs_of(a)):
            return res.violate('I1', 'Documents() changed across %s (call %d)' % (c, hi), hist=hist, before=docs_of(b), after=docs_of(a))
        res.ev('I1_snapshots')
        if not same_out(by[('out1', hi)], by[('out2', hi)]):
            return res.violate('I2', 'the same %s call twice in the same state gave different results' % c, hist=hist,
                               first=by[('out1', hi)], second=by[('out2', hi)])
        res.ev('I2_repeats')
    # I3 control.  A failed merge leaves the parser in a partially merged state that depends on
    # map iteration order (not on output calls), so the comparison stops at the first failed merge.
    merge_failed = False
    for hi, h in enumerate(hist):
        if h['call'] == 'merge':
            a, b = by[('merge', hi)], by[('ctl-merge', hi)]
            if (a['err'] is None) != (b['err'] is None):
                return res.violate('I3', 'merge call %d behaves differently after output calls (%s) than without them (%s)' % (hi, a['err'], b['err']), hist=hist)
            if a['err'] is not None:
                merge_failed = True
                res.labels.add('hist:failed-merge')
                break
    if not merge_failed:
        if not veq(docs_of(by[('final-docs', -1)]), docs_of(by[('ctl-docs', -1)])):
            return res.violate('I3', 'final Documents() differ from a parser that never produced output', hist=hist,
                               real=docs_of(by[('final-docs', -1)]), control=docs_of(by[('ctl-docs', -1)]))
        for k1, k2 in ((('final-out', -1), ('ctl-out', -1)), (('final-out-yaml', -1), ('ctl-out-yaml', -1))):
            if not same_out(by[k1], by[k2]):
                return res.violate('I3', 'final output differs from a parser that never produced output before', hist=hist, real=by[k1], control=by[k2])
    res.ev('I3_controls')
    # I4 parent-less documents that no later layer touched still hold their unevaluated input
    touched = set()
    for h in hist:
        if h['call'] == 'merge' and (h['parents'] or '$match' in h['data']):
            touched.update(h['parents'])
            if '$match' in h['data']:
                touched.add('*')
    if '*' not in touched and not merge_failed and not files:
        final = dict(docs_of(by[('final-docs', -1)]))
        for h in hist:
            if h['call'] == 'merge' and not h['parents'] and h['id'] not in touched and by[('merge', hist.index(h))]['err'] is None:
                if h['id'] in final and not veq(final[h['id']], h['data']):
                    return res.violate('I4', 'Documents() no longer holds the unevaluated input of %s' % h['id'], hist=hist, got=final[h['id']], want=h['data'])
                res.ev('I4_unevaluated')
    res.nontrivial = nout > 0
    if later_after_output:
        res.labels.add('hist:call-after-output')
    res.labels.add('outputs:%d' % min(nout, 4))
    return res
