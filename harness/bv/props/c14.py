"""C14 $encode produces the named standard encodings and $decode inverts them (independent oracles + shared-codec + inverse monitors)."""
import base64
import hashlib
import json

from ..core import Result, out_bytes, file_crosscheck
import random
from .. import gen, ser
from ..val import veq, clone, kind

ID = 'C14'
NEED_BINS = True
SIZES = {'quick': 20000, 'thorough': 3000000}
REQUIRED_EVENTS = ['encodings_agreed', 'invalid_rejected', 'inverse_checked', 'format_texts_checked']
RULE = ('$-free scalars, flat and nested maps and lists (list-valued and empty-string entries for tolist/flags, lists of lists with empty '
        'sublists for flatten, lists of maps), every transform (base64 sha256 json yaml toml jsonl json-pretty join prefix flatten tolist values '
        'flags) and stacks of up to 3 transforms with valid and invalid arguments, hosted as map keys, $value and list entry. Oracles: '
        'base64/hashlib over the value text; independent JSON/YAML/TOML decoders give back the value and the text is byte-identical to what bkl '
        'writes for the same value as output of that format; one-screen reference functions for join/prefix/flatten/tolist/values; flags == '
        '[tolist:=, prefix:--] (metamorphic); stacks fold left to right; malformed arguments / wrong input kinds must fail. Inverse: '
        '{$value: text, $decode: F} evaluates to the value, observed through json, yaml and toml output. Non-trivial = every judged case; '
        'distinct = distinct (value, stack, host).')
ASSUMPTIONS = ['text form of floats and of non-scalars inside base64/sha256/join/prefix/tolist is not judged (values there are strings, integers, booleans)',
               'strings containing $ are not generated',
               'a map carrying $decode, $value and $encode together is read as encode(decode(value)): $encode applies to what the rest of the map evaluates to']

STR = ['title\n---\nbody', 'a\n...\nb', 'x\n+++\ny', 'k: v\n- x\n# c', 'two\nlines\n', 'a', 'b', 'x y', '', '1', 'true', 'null', 'ünï', 'a=b', 'k:v', '-', '--v', 'q"', "s'", 'a,b', '0x10', 'No', '~', 'line', '[x]', '{y}', '#c', '*s', '&a']
FORMATS = ['json', 'yaml', 'toml', 'jsonl', 'json-pretty', 'yml']


import re
from ..val import strings_of
BIGHEX = re.compile(r'^[-+]?0[xXoObB][0-9a-fA-F_]+$')


def overflows(x):
    try:
        return abs(int(x.replace('_', ''), 0)) >= 2**63
    except ValueError:
        return False


class Invalid(Exception):
    pass


class NotJudged(Exception):
    pass


def text(v):
    if isinstance(v, bool):
        return 'true' if v else 'false'
    if isinstance(v, int):
        return str(v)
    if isinstance(v, str):
        return v
    raise NotJudged('text form of %s' % kind(v))


def step(v, t, fmt_text):
    """Reference semantics of one transform. fmt_text(fmt, value) supplies bkl's own text for format transforms."""
    if not isinstance(t, str):
        raise Invalid('transform is not a string')
    parts = t.split(':')
    cmd = parts[0]
    if cmd == 'base64':
        if len(parts) != 1:
            raise Invalid('base64 takes no argument')
        return base64.b64encode(text(v).encode()).decode()
    if cmd == 'sha256':
        if len(parts) != 1:
            raise Invalid('sha256 takes no argument')
        return hashlib.sha256(text(v).encode()).hexdigest()
    if cmd == 'flags':
        if len(parts) != 1:
            raise Invalid('flags takes no argument')
        return step(step(v, 'tolist:=', fmt_text), 'prefix:--', fmt_text)
    if cmd == 'flatten':
        if len(parts) != 1:
            raise Invalid('flatten takes no argument')
        if not isinstance(v, list):
            raise Invalid('flatten of non-list')
        out = []
        for x in v:
            if isinstance(x, list):
                out += x
            else:
                out.append(x)
        return out
    if cmd == 'join':
        if len(parts) > 2:
            raise Invalid('join takes at most one argument')
        if not isinstance(v, list):
            raise Invalid('join of non-list')
        return (parts[1] if len(parts) == 2 else '').join(text(x) for x in v)
    if cmd == 'prefix':
        if len(parts) != 2:
            raise Invalid('prefix needs exactly one argument')
        if not isinstance(v, list):
            raise Invalid('prefix of non-list')
        return [parts[1] + text(x) for x in v]
    if cmd == 'tolist':
        if len(parts) != 2:
            raise Invalid('tolist needs exactly one argument')
        d = parts[1]

        def of_map(m):
            if not isinstance(m, dict):
                raise Invalid('tolist of non-map')
            out = []
            for k in sorted(m.keys()):
                x = m[k]
                for e in (x if isinstance(x, list) else [x]):
                    out.append(k if (isinstance(e, str) and e == '') else k + d + text(e))
            return out
        if isinstance(v, list):
            out = []
            for m in v:
                out += of_map(m)
            return out
        return of_map(v)
    if cmd == 'values':
        if len(parts) != 1:
            raise Invalid('values takes no argument')
        if not isinstance(v, dict):
            raise Invalid('values of non-map')
        return [v[k] for k in sorted(v.keys())]
    if cmd in FORMATS:
        if len(parts) != 1:
            raise Invalid('format transforms take no argument')
        if cmd == 'toml' and not isinstance(v, dict):
            raise NotJudged('toml of a non-map')
        return fmt_text(cmd, v)
    if len(parts) != 1:
        raise Invalid('unknown transform with argument')
    raise Invalid('unknown transform')


def sc(rng, floats=False):
    r = rng.random()
    if r < 0.5:
        return rng.choice(STR)
    if r < 0.8:
        return rng.choice([0, 1, 2, 7, -3, 2**31, 2**53 + 1])
    if r < 0.9 or not floats:
        return rng.choice([True, False])
    return rng.choice([1.5, 0.1, 2.0, 1e100])


def flat_map(rng, floats=False):
    m = {}
    for k in rng.sample(['a', 'b', 'c', 'dd', 'e-f', 'v'], rng.randint(0, 4)):
        r = rng.random()
        if r < 0.2:
            m[k] = [sc(rng, floats) for _ in range(rng.randint(0, 3))]
        else:
            m[k] = sc(rng, floats)
    return m


def value(rng, want, floats=False):
    if want == 'scalar':
        return sc(rng, floats)
    if want == 'map':
        return flat_map(rng, floats)
    if want == 'list':
        return [sc(rng, floats) for _ in range(rng.randint(0, 4))]
    if want == 'lol':
        return [([sc(rng) for _ in range(rng.randint(0, 3))] if rng.random() < 0.6 else sc(rng)) for _ in range(rng.randint(0, 4))]
    if want == 'lom':
        return [flat_map(rng) for _ in range(rng.randint(0, 3))]
    return gen.tree(rng, 3, 3, nulls=False, root=rng.choice(['map', 'list']), pool=STR[:8] + [0, 1, 2, 1.5, True])


GOOD = ['prefix:100%', 'prefix:%s', 'prefix:%d%%', 'join:%', 'join:%s', 'tolist:%', 'tolist:%v', 'base64', 'sha256', 'json', 'yaml', 'toml', 'jsonl', 'json-pretty', 'yml', 'join', 'join:,', 'join: ', 'join:/', 'prefix:X', 'prefix:--', 'prefix:', 'flatten',
        'tolist:=', 'tolist: ', 'tolist:', 'values', 'flags']
BAD = ['base64:x', 'sha256:1', 'flatten:1', 'values:x', 'json:x', 'yaml:1', 'prefix', 'tolist', 'join:a:b', 'prefix:a:b', 'tolist:=:x', 'nosuch', 'nosuch:1', 'Base64', '', 5, True, {'a': 1},
       'flags:x']
FIRST_FOR = {'scalar': ['base64', 'sha256', 'json', 'yaml'], 'map': ['tolist:=', 'tolist: ', 'values', 'flags', 'json', 'yaml', 'toml', 'json-pretty'],
             'list': ['join', 'join:,', 'prefix:X', 'flatten', 'json', 'yaml', 'jsonl'], 'lol': ['flatten', 'json'], 'lom': ['tolist:=', 'flags', 'json', 'yaml'],
             'nested': ['json', 'yaml', 'toml', 'yml', 'json-pretty']}


BAD_DECODE = ['json:pretty', 'yaml:2', 'xml', '', 'JSON', 5, ['json'], 'json ', 'toml:x', True, {'a': 1}, 'base64', 'join:,', 'yaml:', ':json', 'js', 1.5]


def gen_case(rng, i, tier):
    if rng.random() < 0.02:
        return {'mode': 'decode-invalid', 'arg': rng.choice(BAD_DECODE), 'text': rng.choice(['{"a": 1}', 'a: 1', 'a = 1', '[1, 2]', 'x', '']),
                'value': None, 'stack': [], 'spec': None, 'host': 'value', 'want': 'scalar'}
    want = rng.choice(['scalar', 'map', 'map', 'list', 'list', 'lol', 'lom', 'nested'])
    v = value(rng, want, floats=False)
    n = rng.choice([1, 1, 2, 2, 3])
    stack = []
    r = rng.random()
    for j in range(n):
        if r < 0.25 and j == rng.randrange(n):
            stack.append(rng.choice(BAD))
        elif j == 0 and rng.random() < 0.75:
            stack.append(rng.choice(FIRST_FOR[want]))
        else:
            stack.append(rng.choice(GOOD))
    # at most one format transform per stack (the oracle needs bkl's text for the intermediate value)
    seen = False
    for j, t in enumerate(stack):
        if isinstance(t, str) and t.split(':')[0] in FORMATS:
            if seen:
                stack[j] = 'base64'
            seen = True
    host = rng.choice(['map', 'value', 'list']) if isinstance(v, (dict, list)) else 'value'
    if host == 'map' and not isinstance(v, dict):
        host = 'value' if rng.random() < 0.5 else 'list'
    if host == 'list' and not isinstance(v, list):
        host = 'value'
    if rng.random() < 0.12:
        host = 'transcode'      # the operand of $encode is what a $decode in the same map produced
    spec = stack[0] if len(stack) == 1 and rng.random() < 0.7 else stack
    return {'value': v, 'stack': stack, 'spec': spec, 'host': host, 'want': want, 'mode': 'encode'}


def fixed_cases(tier):
    out = []
    for t in GOOD + BAD:
        for want, v in (('scalar', 'a'), ('scalar', 7), ('map', {'a': 1, 'b': '', 'c': [1, 'x']}), ('list', ['a', 2, True]), ('lol', [['a', 'b'], [], 'c', [], ['d']]),
                        ('lom', [{'a': 1}, {'b': 2, 'c': ''}])):
            out.append({'value': v, 'stack': [t], 'spec': t, 'host': 'value', 'want': want, 'mode': 'encode'})
    for t in ('json', 'base64', 'flags', 'values'):
        out.append({'value': {'a': 1, 'b': 'x'}, 'stack': [t], 'spec': t, 'host': 'transcode', 'want': 'map', 'mode': 'encode'})
    out.append({'value': {'a': 1, 'b': 2}, 'stack': ['tolist:=', 'join:,'], 'spec': ['tolist:=', 'join:,'], 'host': 'map', 'want': 'map', 'mode': 'encode'})
    out.append({'value': [['prog'], [], '--v'], 'stack': ['flatten', 'prefix:+', 'join:,'], 'spec': ['flatten', 'prefix:+', 'join:,'], 'host': 'list', 'want': 'lol', 'mode': 'encode'})
    return out


def shrink(case):
    if case.get('mode') == 'decode-invalid':
        return
    st = case['stack']
    if len(st) > 1:
        for i in range(len(st)):
            s2 = st[:i] + st[i + 1:]
            yield dict(case, stack=s2, spec=s2)
    from ..shrink import shrink_tree
    for t in shrink_tree(case['value']):
        if type(t) is type(case['value']):
            yield dict(case, value=t)


def host_doc(v, spec, host):
    if host == 'map':
        d = dict(v)
        d['$encode'] = spec
        return {'r': d}
    if host == 'list':
        l = list(v)
        l.append({'$encode': spec})
        return {'r': l}
    if host == 'transcode':
        return {'r': {'$decode': 'json', '$value': json.dumps(v), '$encode': spec}}
    return {'r': {'$value': v, '$encode': spec}}


def check_decode_invalid(ctx, case, res):
    d = {'r': {'$value': case['text'], '$decode': case['arg']}, 'keep': 1}
    resp = ctx.call([{'op': 'merge_doc', 'id': 'd', 'data': d}, {'op': 'output_docs'}], res)
    if resp is None:
        return res.violate('crash', 'worker died', case=case)
    for r in resp['results']:
        if r.get('panic'):
            return res.violate('crash', 'panic: ' + r['panic'][:300], case=case)
    res.nontrivial = True
    res.labels.add('mode:decode-invalid')
    if all(r['err'] is None for r in resp['results']):
        return res.violate('invalid', 'malformed $decode argument %r accepted' % (case['arg'],), case=case, got=resp['results'][1].get('values'))
    res.ev('invalid_rejected')
    return res


def after_failed_output_probe(ctx, res, i):
    """$encode: json gives the same text whether or not a JSON output failed part-way earlier in the same process."""
    import os
    d = ctx.casedir()
    try:
        with open(os.path.join(d, 'bad.toml'), 'w') as f:
            f.write('first = "document %d"\nfiller = "abcdefghijklmnopqrstuvwxyz"\n---\nx = nan\n' % i)
        enc = {'v': {'$encode': 'json', '$value': {'a': 1, 'b': [1, 'two'], 'n': i}}, 'w': {'$encode': 'json-pretty', '$value': {'k': [i]}}}
        ops = [{'op': 'merge_doc', 'id': 'e', 'data': enc, 'parser': 60}, {'op': 'output_docs', 'parser': 60}]
        for k in range(3):
            ops += [{'op': 'merge_file', 'path': os.path.join(d, 'bad.toml'), 'parser': 61 + 2 * k}, {'op': 'output', 'format': 'json', 'parser': 61 + 2 * k},
                    {'op': 'merge_doc', 'id': 'e', 'data': enc, 'parser': 62 + 2 * k}, {'op': 'output_docs', 'parser': 62 + 2 * k}]
        r = ctx.call(ops, res)
        if r is None:
            return res.violate('crash', 'worker died (encode after a failed output)')
        rs = r['results']
        if rs[1]['err'] is not None:
            return None
        for k in range(3):
            failed = rs[2 + 4 * k]['err'] is not None or rs[3 + 4 * k]['err'] is not None
            again = rs[5 + 4 * k]
            if again['err'] is not None or not veq(again['values'], rs[1]['values']):
                return res.violate('encode', '$encode: json gives another text after a JSON output failed earlier in the same process' if failed else '$encode: json is not repeatable in one process',
                                   before=rs[1]['values'], after=again.get('values'), err=again['err'])
            res.ev('encodes_after_failed_output' if failed else 'encodes_repeated_in_process')
    finally:
        ctx.cleanup_case(d)
    return None


def check_case(ctx, case):
    res = Result()
    if case.get('i', 0) % 64 == 7:
        if after_failed_output_probe(ctx, res, case.get('i', 0)) is not None:
            return res
    if case.get('mode') == 'decode-invalid':
        return check_decode_invalid(ctx, case, res)
    v, stack, host = case['value'], case['stack'], case['host']
    res.labels.add('host:' + host)
    res.labels.add('input:' + case.get('want', '?'))
    res.labels.add('stack:%d' % len(stack))
    for t in stack:
        res.labels.add('t:' + (t.split(':')[0] if isinstance(t, str) else 'non-string'))
    # phase 1: find the format transform (if any) and ask bkl for its own text of the intermediate value
    texts = {}
    pending = []

    def fmt_text(fmt, val):
        key = (fmt, json.dumps(val, sort_keys=True))
        if key in texts:
            return texts[key]
        pending.append((fmt, val))
        raise LookupError

    def run_ref():
        cur = v
        for t in stack:
            cur = step(cur, t, fmt_text)
        return cur
    expect = None
    outcome = None
    for attempt in range(3):
        try:
            expect = run_ref()
            outcome = 'value'
            break
        except Invalid as e:
            outcome = 'invalid'
            why = str(e)
            break
        except NotJudged as e:
            return res.skip(str(e))
        except LookupError:
            fmt, val = pending.pop()
            resp = ctx.call([{'op': 'merge_doc', 'id': 'v', 'data': val}, {'op': 'output', 'format': fmt}], res)
            if resp is None:
                return res.violate('crash', 'worker died', case=case)
            o = resp['results'][1]
            if o['err'] is not None:
                return res.skip('bkl cannot write this value as %s' % fmt)
            txt = out_bytes(o).decode()
            if fmt in ('yaml', 'yml') and any(BIGHEX.match(x) and overflows(x) for x in strings_of(val)):
                return res.skip('known finding C05-yaml-overflowing-hex-lookalike-unquoted')
            texts[(fmt, json.dumps(val, sort_keys=True))] = txt
            # independent decoder must give the value back
            try:
                back = ser.parse(fmt, txt)
            except Exception as e:
                return res.violate('codec', '%s text written by bkl does not parse with an independent decoder: %s' % (fmt, e), value=val, text=txt)
            if not veq(back, [val], loose=True):
                return res.violate('codec', '%s text written by bkl decodes to a different value' % fmt, value=val, text=txt, back=back)
            res.ev('format_texts_checked')
            res.fmt_used = (fmt, val, txt)
    d = host_doc(v, case['spec'], host)
    ops = [{'op': 'merge_doc', 'id': 'd', 'data': d}, {'op': 'output_docs'}]
    metam = None
    if 'flags' in stack and outcome == 'value':
        st2 = []
        for t in stack:
            st2 += ['tolist:=', 'prefix:--'] if t == 'flags' else [t]
        ops += [{'op': 'merge_doc', 'id': 'd2', 'data': host_doc(v, st2, host), 'parser': 1}, {'op': 'output_docs', 'parser': 1}]
        metam = True
    resp = ctx.call(ops, res)
    if resp is None:
        return res.violate('crash', 'worker died', case=case)
    rs = resp['results']
    for r in rs:
        if r.get('panic'):
            return res.violate('crash', 'panic: ' + r['panic'][:300], case=case)
    o = rs[1]
    res.nontrivial = True
    if outcome == 'invalid':
        if o['err'] is None:
            return res.violate('invalid', 'malformed transform / wrong input kind accepted (%s)' % why, case=case, got=o.get('values'))
        res.labels.add('outcome:invalid-rejected')
        res.ev('invalid_rejected')
        return res
    if o['err'] is not None:
        return res.violate('encode', 'valid transform stack failed: %s' % o['err'], case=case, expect=expect)
    got = o['values'][0]['r'] if o['values'] and isinstance(o['values'][0], dict) and 'r' in o['values'][0] else None
    if expect == [] and host != 'value' and got is None:
        pass
    if not veq(got, expect):
        return res.violate('encode', 'result differs from the reference implementation (stack applied left to right)', case=case, expect=expect, got=got)
    res.ev('encodings_agreed')
    res.labels.add('outcome:encoded')
    if case.get('i', 0) % 25 == 0:
        rj = ctx.call([{'op': 'merge_doc', 'id': 'd', 'data': d}, {'op': 'output', 'format': 'json'}], res)
        if rj is not None and rj['results'][1]['err'] is None:
            if not file_crosscheck(ctx, res, [d], True, out_bytes(rj['results'][1]), {'case': case}, random.Random(case.get('i', 0))):
                return res
    if metam:
        o2 = rs[3]
        if o2['err'] is not None or not veq(o2['values'], o['values']):
            return res.violate('encode', 'flags differs from [tolist:=, prefix:--]', case=case, flags=o.get('values'), explicit=o2.get('values'))
        res.ev('flags_equiv_checked')
    # inverse: $decode of the text bkl wrote gives the value back, seen through all three output formats
    fu = getattr(res, 'fmt_used', None)
    if fu and stack.index(next(t for t in stack if isinstance(t, str) and t.split(':')[0] in FORMATS)) == len(stack) - 1:
        fmt, val, txt = fu
        dd = {'r': {'$value': txt, '$decode': fmt}, 'keep': 1}
        ops = [{'op': 'merge_doc', 'id': 'd', 'data': dd}, {'op': 'output_docs'}, {'op': 'output', 'format': 'json'}, {'op': 'output', 'format': 'yaml'}, {'op': 'output', 'format': 'toml'}]
        resp = ctx.call(ops, res)
        if resp is None:
            return res.violate('crash', 'worker died in $decode', case=case)
        r2 = resp['results']
        if r2[1]['err'] is not None:
            return res.violate('inverse', '$decode of the text written by $encode failed: %s' % r2[1]['err'], fmt=fmt, value=val, text=txt)
        back = r2[1]['values'][0].get('r')
        strict = fmt == 'toml'
        if not veq(back, val, loose=not strict) and not (val in ({}, []) and back is None):
            return res.violate('inverse', '$decode(%s) of $encode(%s) is not the original value' % (fmt, fmt), value=val, text=txt, back=back)
        from ..val import foreign_types
        if foreign_types(r2[1]['values']):
            return res.violate('inverse', '$decode leaves non-normalized Go types %s in the tree' % foreign_types(r2[1]['values']), value=val, text=txt)
        for k, of in ((2, 'json'), (3, 'yaml'), (4, 'toml')):
            if of == 'yaml' and any(BIGHEX.match(x) and overflows(x) for x in strings_of(val)):
                continue        # known finding C05-yaml-overflowing-hex-lookalike-unquoted
            if r2[k]['err'] is not None:
                if of == 'toml':
                    continue
                return res.violate('inverse', 'decoded value cannot be written as %s: %s' % (of, r2[k]['err']), value=val)
            seen = ser.parse(of, out_bytes(r2[k]).decode())
            want = {'keep': 1}
            if not (val in ({}, []) and False):
                want['r'] = val
            if len(seen) != 1 or not veq(seen[0].get('r'), val, loose=True):
                if val in ({}, []) and seen and seen[0].get('r') in (None, {}, []):
                    continue
                return res.violate('inverse', 'decoded value looks different in %s output' % of, value=val, text=txt, seen=seen)
        res.ev('inverse_checked')
    return res
