"""C03 Inheritance chain is resolved from filenames and $parent, base first
(reference chain model + load-event log + metamorphic renaming / re-expression / re-formatting)."""
import fnmatch
import json
import os
import posixpath
import random

from ..core import crashed, Result, out_bytes, cli
from .. import ser, model
from ..val import veq, clone, drop_nulls
from .c02 import Stream

ID = 'C03'
SIZES = {'quick': 1000, 'thorough': 100000}
REQUIRED_EVENTS = ['chains_agreed', 'load_events_checked', 'missing_rejected', 'metamorphic_rename']
RULE = ('directory layouts of 1-6 layer files (chain depth <= 4; extensions json jsonl yaml yml toml; one file per layer name) built by scenario '
        'generators: filename chains, $parent as string / list / * wildcard (with decoys that the wildcard must not match) / false / null placed '
        'in the first or a later document, symlinked layers (same and other directory), 1-3 command-line inputs, -P, a deleted middle layer '
        'or missing $parent target. Every layer carries trace:[tag], last:tag and a private key, so the application order is part of the '
        'output. Monitors: (1) reference chain model + stream model vs the bkl binary and MergeFileLayers; the hook\'s load events must be the '
        'model\'s file sequence; (2) metamorphic: consistent renaming of name components, re-expressing filename links with $parent, and '
        're-serializing every file under another extension must give byte-identical output; (3) a missing layer must fail with empty stdout. '
        'Non-trivial = chain of >= 2 layers or a directive/symlink involved; distinct = distinct layouts.')
ASSUMPTIONS = ['chain model in this file, stream/merge model in harness/bv', 'layouts never provide one layer name through two files; diamonds are not generated']

EXTS = ['json', 'jsonl', 'yaml', 'yml', 'toml']
WORDS = ['a', 'b', 'c', 'd', 'base', 'prod', 'eu', 'svc', 'x1', 'v[1]', 'q?', 'st*r', 'sp ace', 'ünï']


class Missing(Exception):
    pass


class Invalid(Exception):
    pass


def real_of(files, path, depth=0):
    e = files.get(path)
    if e is None:
        return None
    if 'link' in e:
        if depth > 8:
            return None
        tgt = posixpath.normpath(posixpath.join(posixpath.dirname(path), e['link']))
        return real_of(files, tgt, depth + 1)
    return path


def docs_of(files, path):
    r = real_of(files, path)
    if r is None:
        raise Missing(path)
    return files[r]['docs']


def supported(p):
    return p.rsplit('.', 1)[-1] in EXTS and '.' in posixpath.basename(p)


def find_layer(files, stem):
    for e in EXTS:
        p = stem + '.' + e
        if p in files and real_of(files, p) is not None:
            return p
    return None


def parents_of(files, path):
    docs = docs_of(files, path)
    names = []
    noparent = False
    for d in docs:
        if isinstance(d, dict) and '$parent' in d:
            v = d['$parent']
            if isinstance(v, str):
                names.append(v)
            elif isinstance(v, list):
                if not all(isinstance(x, str) for x in v):
                    raise Invalid('$parent list')
                names += v
            elif v is False or v is None:
                noparent = True
            elif v is True:
                raise Invalid('$parent: true')
    if noparent:
        if names:
            raise Invalid('conflicting $parent')
        return []
    if names:
        out = []
        for n in names:
            pat = posixpath.normpath(posixpath.join(posixpath.dirname(path), n)) + '.*'
            dots = pat.count('.')
            ms = sorted(p for p in files if fnmatch.fnmatchcase(p, pat) and p.count('/') == pat.count('/') and p.count('.') == dots and p.rsplit('.', 1)[-1] in EXTS)
            if not ms:
                raise Missing(n)
            out += ms
        return out
    p = path
    if 'link' in files[path]:
        p = real_of(files, path)
    d, b = posixpath.dirname(p), posixpath.basename(p)
    parts = b.split('.')
    if len(parts) < 2:
        raise Invalid('filename')
    if len(parts) == 2:
        return []
    stem = posixpath.join(d, '.'.join(parts[:-2]))
    f = find_layer(files, stem)
    if f is None:
        raise Missing(stem)
    return [f]


def chain(files, path, seen=()):
    """Load order for one input: parents' chains (left to right) then the file. Returns [(path, [parent paths])]."""
    if path in seen:
        raise Invalid('cycle')
    if path not in files or real_of(files, path) is None:
        raise Missing(path)
    ps = parents_of(files, path)
    out = []
    for p in ps:
        out += chain(files, p, seen + (path,))
    out.append((path, ps))
    return out


def load_order(files, path):
    """Order in which files are opened: the file, then each parent's subtree."""
    out = [path]
    for p in parents_of(files, path):
        out += load_order(files, p)
    return out


def expected(files, inputs, skip_parents):
    st = Stream()
    notes = model.Notes()
    order = []
    n = 0
    for inp in inputs:
        ch = [(inp, [])] if skip_parents else chain(files, inp)
        if skip_parents and (inp not in files or real_of(files, inp) is None):
            raise Missing(inp)
        ids = {}
        # children need their parents' document ids: process in load order, remember ids per occurrence
        for path, ps in ch:
            n += 1
            my = []
            for di, d in enumerate(docs_of(files, path)):
                body = {k: v for k, v in d.items() if k != '$parent'} if isinstance(d, dict) else d
                pid = 'f%d:%s#%d' % (n, path, di)
                parents = [x for p in ps for x in ids.get(p, [])]
                st.apply(pid, parents, body, notes)
                my.append(pid)
            ids[path] = my
        order += [inp] if skip_parents else load_order(files, inp)
    return [drop_nulls(d[1]) for d in st.docs], order


# ---------------------------------------------------------------------------
# scenario generators


def body(tag, rng):
    b = {'trace': [tag], 'last': tag, 'k_' + tag: rng.choice([1, 'v', True, 1.5])}
    if rng.random() < 0.3:
        b['shared'] = {'from': tag, 'n': {tag: 1}}
    return b


def gen_case(rng, i, tier):
    labels = set()
    files = {}
    words = rng.sample(WORDS, 6)
    tagn = [0]

    def add(stem, ext=None, extra=None, docs=None, d=''):
        tagn[0] += 1
        tag = 't%d' % tagn[0]
        b = body(tag, rng)
        if extra:
            b.update(extra)
        p = posixpath.join(d, stem + '.' + (ext or rng.choice(EXTS)))
        files[p] = {'docs': docs if docs is not None else [b]}
        return p
    kind = rng.choice(['filename', 'filename', 'directive', 'list', 'wildcard', 'cut', 'symlink', 'multi-input', 'later-doc', 'skip-parents', 'missing', 'two-docs', 'multi-doc-parents'])
    labels.add('scenario:' + kind)
    depth = rng.randint(1, 4)
    skipP = False
    stems = ['.'.join(words[:k + 1]) for k in range(depth)]
    inputs = []
    if kind in ('filename', 'missing', 'skip-parents', 'multi-input', 'two-docs'):
        ps = [add(s) for s in stems]
        inputs = [ps[-1]]
        if kind == 'two-docs' and depth >= 2:
            k = rng.randrange(depth)
            e = files[ps[k]]
            tagn[0] += 1
            e['docs'] = e['docs'] + [body('t%d' % tagn[0], rng)]
        if kind == 'missing' and depth >= 2:
            del files[ps[rng.randrange(depth - 1)]]
        if kind == 'skip-parents':
            skipP = True
            if rng.random() < 0.6:
                files[ps[-1]]['docs'][0]['$parent'] = rng.choice([stems[0], 'nosuchlayer', False])
        if kind == 'multi-input':
            spare = [w for w in WORDS if w not in words]
            rng.shuffle(spare)
            for j in range(rng.randint(1, 2)):
                w2 = [spare[j], rng.choice(WORDS)]
                q = [add(w2[0] + 'q'), add(w2[0] + 'q.' + w2[1])]
                inputs.append(q[-1] if rng.random() < 0.7 else q[0])
            rng.shuffle(inputs)
    elif kind in ('directive', 'later-doc', 'cut'):
        ps = [add(s) for s in stems]
        other = add(words[4] + 'z')
        top = ps[-1]
        if kind == 'cut':
            files[top]['docs'][0]['$parent'] = rng.choice([False, None])
        else:
            val = rng.choice([words[4] + 'z', [words[4] + 'z'], 'nosuch' if rng.random() < 0.15 else words[4] + 'z'])
            if kind == 'later-doc':
                tagn[0] += 1
                files[top]['docs'] = files[top]['docs'] + [dict(body('t%d' % tagn[0], rng), **{'$parent': val})]
            else:
                files[top]['docs'][0]['$parent'] = val
        inputs = [top]
        # a further layer on top through the filename rule
        if rng.random() < 0.5:
            inputs = [add(stems[-1] + '.top')]
    elif kind == 'multi-doc-parents':
        # several documents of one file each name parents: string + list, list + list, string + string, in any order
        ps = [add(w) for w in words[:4]]
        forms = rng.choice([('str', 'list'), ('list', 'list'), ('str', 'str'), ('list', 'str'), ('str', 'list', 'str')])
        docs = []
        pool = list(words[:4])
        rng.shuffle(pool)
        for fm in forms:
            tagn[0] += 1
            b = body('t%d' % tagn[0], rng)
            if fm == 'str':
                b['$parent'] = pool.pop()
            else:
                k = min(len(pool), rng.randint(1, 2))
                b['$parent'] = [pool.pop() for _ in range(k)]
            docs.append(b)
            if not pool:
                break
        top = add(words[5] + 'top', docs=docs)
        inputs = [top]
    elif kind == 'list':
        a, b = add(words[0]), add(words[1])
        c = add(words[1] + '.' + words[2])
        top = add(words[3] + 'top', extra={'$parent': rng.choice([[words[0], words[1] + '.' + words[2]], [words[1] + '.' + words[2], words[0]], [words[0], 'nosuch']])})
        inputs = [top]
    elif kind == 'wildcard':
        stem = words[0]
        base = add(stem)
        subs = sorted(rng.sample(['x', 'y', 'z', 'w', 'x-eu', 'x,1', 'x+1', 'x 2', 'y-', 'X', 'x_'], rng.randint(1, 4)))
        for s in subs:
            add(stem + '.' + s)
        add(stem + '.' + subs[0] + '.deep')              # must not be matched: the wildcard does not cross dots
        files[stem + '.notes.txt'] = {'docs': [{'trace': ['TXT'], 'last': 'TXT'}], 'raw': True}   # unsupported extension: ignored
        top = add(words[3] + 'top', extra={'$parent': rng.choice([stem + '.*', [stem + '.*']])})
        inputs = [top]
    elif kind == 'symlink':
        d = rng.choice(['', 'sub'])
        ps = [add(s, d=d) for s in stems]
        tgt = ps[-1]
        ext = tgt.rsplit('.', 1)[-1]
        lname = words[4] + '.' + words[5] + '.' + ext
        if rng.random() < 0.12:
            # target without any extension: inheriting from its name is impossible -> must be reported, not crash
            raw = files.pop(tgt)
            files['settings' + words[5]] = raw
            tgt = 'settings' + words[5]
            ps[-1] = tgt
        if rng.random() < 0.3:
            lname = words[4] + '.' + ext
        files[lname] = {'link': tgt if d == '' else posixpath.join(d, posixpath.basename(tgt))}
        if d == '' and '.' in tgt and rng.random() < 0.35:
            # a link to a link: the chain comes from the name of the FINAL target, not from the intermediate hop
            mid = words[3] + 'hop.' + ext
            files[mid] = {'link': tgt}
            files[lname] = {'link': mid}
            labels.add('symlink:two-hops')
        # decoy: a layer named like the link's own prefix must NOT be used
        if lname.count('.') >= 2 and rng.random() < 0.7:
            add(words[4])
        inputs = [lname]
        if rng.random() < 0.4:
            inputs = [add(lname.rsplit('.', 1)[0] + '.over')]
    if rng.random() < 0.1 and kind not in ('missing',):
        skipP = skipP or rng.random() < 0.3
    if rng.random() < 0.15 and kind not in ('symlink',):
        # the whole layout lives in a directory whose name contains a dot
        dd = rng.choice(['conf.d', 'v1.2', '.config', 'a.b.c'])
        files = {posixpath.join(dd, p): e for p, e in files.items()}
        inputs = [posixpath.join(dd, p) for p in inputs]
        labels.add('layout:dotted-directory')
    # TOML cannot express null ($parent: null): such files get another extension
    for p in list(files.keys()):
        e = files[p]
        if p.endswith('.toml') and 'docs' in e and not all(ser.toml_ok(x) for x in e['docs']):
            np_ = p[:-4] + 'yaml'
            files[np_] = files.pop(p)
            inputs = [np_ if x == p else x for x in inputs]
            for q in files.values():
                if 'link' in q and posixpath.basename(q['link']) == posixpath.basename(p):
                    q['link'] = q['link'][:-4] + 'yaml'
    return {'files': files, 'inputs': inputs, 'skipP': skipP, 'labels': sorted(labels)}


def fixed_cases(tier):
    return []


def shrink(case):
    files = case['files']
    for p in list(files.keys()):
        if p in case['inputs']:
            continue
        f2 = {k: v for k, v in files.items() if k != p}
        yield dict(case, files=f2)


def materialise(d, files, rng, ext_map=None):
    for p, e in files.items():
        full = os.path.join(d, p)
        os.makedirs(os.path.dirname(full), exist_ok=True)
        if 'link' in e:
            os.symlink(e['link'], full)
        elif e.get('raw'):
            with open(full, 'w') as f:
                f.write('not a layer\n')
        else:
            fmt = p.rsplit('.', 1)[-1]
            if fmt not in EXTS:
                # a file without extension is only reachable through a symlink; its format is the link's
                fmt = next((q.rsplit('.', 1)[-1] for q, e2 in files.items() if 'link' in e2 and posixpath.basename(e2['link']) == posixpath.basename(p)), 'yaml')
            with open(full, 'w') as f:
                f.write(ser.write(fmt, e['docs'], rng))


def rename_layout(case, rng):
    """Consistently rename every dot-separated name component (not extensions)."""
    comps = set()
    for p in case['files']:
        for c in posixpath.basename(p).split('.')[:-1]:
            comps.add(c)
    new = {}
    pool = ['r%d' % k for k in range(40)]
    rng.shuffle(pool)
    for c in sorted(comps):
        new[c] = pool.pop()

    def rn(path):
        d, b = posixpath.dirname(path), posixpath.basename(path)
        parts = b.split('.')
        return posixpath.join(d, '.'.join([new.get(x, x) for x in parts[:-1]] + [parts[-1]]))

    def rname(n):
        if n == 'nosuch' or n == 'nosuchlayer':
            return n
        d, b = posixpath.dirname(n), posixpath.basename(n)
        return posixpath.join(d, '.'.join(new.get(x, x) for x in b.split('.')))
    files = {}
    for p, e in case['files'].items():
        if 'link' in e:
            files[rn(p)] = {'link': rn(e['link'])}
            continue
        docs = clone(e['docs'])
        for dd in docs:
            if isinstance(dd, dict) and '$parent' in dd:
                v = dd['$parent']
                if isinstance(v, str):
                    dd['$parent'] = rname(v)
                elif isinstance(v, list):
                    dd['$parent'] = [rname(x) for x in v]
        files[rn(p)] = dict(e, docs=docs)
    return dict(case, files=files, inputs=[rn(p) for p in case['inputs']])


def reext_layout(case, rng):
    """Every regular layer file re-serialized under another supported extension."""
    m = {}
    linked = set(real_of(case['files'], p) for p, e in case['files'].items() if 'link' in e)
    for p, e in case['files'].items():
        if 'link' in e or e.get('raw') or p in linked or '.' not in posixpath.basename(p):      # a link's format comes from the link's own extension
            continue
        stem, ext = p.rsplit('.', 1)
        ok = all(ser.toml_ok(x) for x in e['docs'])
        m[p] = stem + '.' + rng.choice([x for x in EXTS if x != ext and (ok or x != 'toml')])

    def mp(p):
        return m.get(p, p)
    files = {}
    for p, e in case['files'].items():
        if 'link' in e:
            tgt = posixpath.normpath(posixpath.join(posixpath.dirname(p), e['link']))
            nt = mp(tgt)
            # the link keeps its own name but must keep a supported extension
            files[p] = {'link': posixpath.relpath(nt, posixpath.dirname(p) or '.')}
        else:
            files[mp(p)] = e
    return dict(case, files=files, inputs=[mp(p) for p in case['inputs']])


def directive_layout(case, rng):
    """Re-express filename links by $parent: every file with a filename parent and no directive gets $parent: <parent layer name> and a fresh unrelated name."""
    files = case['files']
    try:
        for p, e in files.items():
            if 'link' in e:
                return None
    except Exception:
        return None
    newname = {}
    k = 0
    out = {}
    order = sorted(files.keys(), key=lambda p: p.count('.'))
    for p in order:
        e = files[p]
        if e.get('raw'):
            out[p] = e
            continue
        d, b = posixpath.dirname(p), posixpath.basename(p)
        parts = b.split('.')
        has_dir = any(isinstance(x, dict) and '$parent' in x for x in e['docs'])
        if len(parts) > 2 and not has_dir:
            par = find_layer(files, posixpath.join(d, '.'.join(parts[:-2])))
            if par is None:
                return None
            k += 1
            np_ = posixpath.join(d, 'dz%d.%s' % (k, parts[-1]))
            newname[p] = np_
            docs = clone(e['docs'])
            pn = posixpath.basename(newname.get(par, par)).rsplit('.', 1)[0]
            docs[0]['$parent'] = pn
            out[np_] = dict(e, docs=docs)
        elif has_dir:
            return None
        else:
            out[p] = e
    if not newname:
        return None
    return dict(case, files=out, inputs=[newname.get(p, p) for p in case['inputs']])


def run_layout(ctx, res, case, rng, lib=True):
    d = ctx.casedir()
    materialise(d, case['files'], rng)
    os.makedirs(os.path.join(d, 'zsub'), exist_ok=True)

    def spell(p):
        e = case['files'].get(p) or {}
        base = posixpath.basename(p)
        if rng.random() < 0.12 and 'link' not in e and not e.get('raw') and '.' in base and base.rsplit('.', 1)[-1] in EXTS:
            # a virtual name: the layer is asked for under another supported extension than the file on disk has
            others = [x for x in EXTS if x != base.rsplit('.', 1)[-1]]
            p = p.rsplit('.', 1)[0] + '.' + rng.choice(others)
            res.labels.add('cli:virtual-extension')
        r = rng.random()
        if r < 0.15:
            return './' + p
        if r < 0.25:
            return 'zsub/../' + p
        if r < 0.3:
            return os.path.join(d, p)
        return p
    fflag = rng.choice([['-f', 'json'], ['-f', 'json'], ['-fjson'], ['--format=json'], ['--format', 'json']])
    pflag = ([rng.choice(['-P', '--skip-parent'])] if case['skipP'] else []) + ([rng.choice(['-v', '--verbose'])] if rng.random() < 0.1 else [])
    ins = [spell(p) for p in case['inputs']]
    order = rng.random()
    if order < 0.7:
        argv = [ctx.bin('bkl')] + fflag + pflag + ins
    elif order < 0.85:
        argv = [ctx.bin('bkl')] + ins + pflag + fflag
    else:
        argv = [ctx.bin('bkl')] + pflag + ins[:1] + fflag + ins[1:]
    r = cli(argv, cwd=d)
    res.execs += 1
    out = {'rc': r.rc, 'stdout': r.out, 'stderr': r.err.decode('utf-8', 'replace')[-300:], 'dir': d}
    if lib:
        ops = []
        for p in case['inputs']:
            ops.append({'op': 'merge_file' if case['skipP'] else 'merge_layers', 'path': os.path.join(d, p)})
        ops.append({'op': 'output', 'format': 'json'})
        resp = ctx.call(ops, res, events=True)
        out['lib'] = resp
    return out


def layout_probe(ctx, res, i):
    """The chain is resolved from the directory as it is WHEN the evaluation runs: the same process evaluates the same top layer while
    its lower layer is absent, appears, changes its extension and disappears again."""
    sd = ctx.casedir()
    low = {'who': 'lower', 'keep': [1, 2], 'n': i}
    want = [{'who': 'upper', 'keep': [1, 2], 'n': i}]
    top = os.path.join(sd, 'svc.prod.json')
    with open(top, 'w') as f:
        f.write('{"who": "upper"}')
    steps = [('absent', None, None), ('created', 'svc.yaml', 'yaml'), ('moved', 'svc.toml', 'toml'), ('moved-back', 'svc.json', 'json'), ('removed', None, None), ('re-created', 'svc.yml', 'yaml')]
    cur = None
    try:
        for k, (what, name, fmt) in enumerate(steps):
            if cur:
                os.remove(os.path.join(sd, cur))
            cur = name
            if name:
                with open(os.path.join(sd, name), 'w') as f:
                    f.write(ser.write(fmt, [low]))
            r = ctx.call([{'op': 'merge_layers', 'path': top, 'parser': 30 + k}, {'op': 'output_docs', 'parser': 30 + k}], res)
            if r is None:
                return res.violate('crash', 'worker died (layout changing between evaluations)')
            err = next((x['err'] for x in r['results'] if x['err']), None)
            if name is None:
                if err is None:
                    return res.violate('missing', 'the lower layer is %s, yet the evaluation succeeds (a chain resolved by an earlier evaluation of this process is reused)' % what,
                                       step=k, got=r['results'][-1].get('values'))
            elif err is not None or not veq(r['results'][-1]['values'], want):
                return res.violate('chain', 'the lower layer was %s before this evaluation, but the result is not the fold of the layers that exist now' % what,
                                   step=k, layer=name, err=err, got=r['results'][-1].get('values'), expect=want)
        res.ev('layouts_changed_between_evaluations')
    finally:
        ctx.cleanup_case(sd)
    return None


def check_case(ctx, case):
    res = Result()
    res.labels.update(case.get('labels', []))
    files, inputs = case['files'], case['inputs']
    if case.get('i', 0) % 16 == 3:
        if layout_probe(ctx, res, case.get('i', 0)) is not None:
            return res
    rng = random.Random(json.dumps([sorted(files.keys()), inputs]))
    try:
        exp, order = expected(files, inputs, case['skipP'])
        fail = None
    except Missing as e:
        exp, order, fail = None, None, 'missing layer %s' % e
    except (Invalid, model.Reject) as e:
        # outside the judged domain for the chain model, but the tool must still not crash
        run = run_layout(ctx, res, case, rng, lib=False)
        ctx.cleanup_case(run['dir'])
        if crashed(run['rc'], run['stderr']):
            return res.violate('crash', 'bkl crashed on a layout with %s: rc=%s %s' % (e, run['rc'], run['stderr']), case=case)
        return res.skip('layout outside the judged domain: %s' % e)
    res.nontrivial = len(files) > 1
    run = run_layout(ctx, res, case, rng)
    d = run['dir']
    try:
        if crashed(run['rc'], run['stderr']):
            return res.violate('crash', 'bkl crashed / hung: rc=%s %s' % (run['rc'], run['stderr']), case=case)
        lib = run['lib']
        if lib is None:
            return res.violate('crash', 'worker died', case=case)
        liberr = next((r['err'] for r in lib['results'] if r['err']), None)
        if fail is not None:
            if run['rc'] == 0 or liberr is None:
                return res.violate('missing', 'a %s was silently skipped (binary rc=%s, library err=%s)' % (fail, run['rc'], liberr), case=case, stdout=run['stdout'].decode('utf-8', 'replace'))
            if run['stdout']:
                return res.violate('missing', 'bkl failed but wrote to stdout', case=case)
            res.labels.add('outcome:missing-rejected')
            res.ev('missing_rejected')
            return res
        if run['rc'] != 0:
            return res.violate('chain', 'bkl failed on a resolvable layout: %s' % run['stderr'], case=case, expect=exp)
        got = ser.parse_json_stream(run['stdout'].decode())
        if not veq(got, exp, loose=True):
            return res.violate('chain', 'output is not the base-first fold of the resolved layers', case=case, expect=exp, got=got, model_order=order)
        if liberr is not None or out_bytes(lib['results'][-1]) != run['stdout']:
            return res.violate('chain', 'library (MergeFileLayers) and binary disagree', case=case, liberr=liberr)
        loads = [e.split('\t')[1] for e in lib.get('events', []) if e.startswith('load\t')]
        rel = [os.path.relpath(os.path.realpath(os.path.join(d, p)) if False else os.path.normpath(p), d) if os.path.isabs(p) else os.path.normpath(p) for p in loads]
        if rel != [os.path.normpath(p) for p in order]:
            return res.violate('chain', 'files were loaded in a different sequence than the rules resolve', case=case, loaded=rel, expect=order)
        res.ev('chains_agreed')
        res.ev('load_events_checked', len(loads))
        res.labels.add('chain-len:%d' % min(len(order), 6))
        # metamorphic variants: byte-identical output
        for nm, fn in (('rename', rename_layout), ('reext', reext_layout), ('as-directive', directive_layout)):
            v = fn(case, rng)
            if v is None:
                continue
            try:
                vexp, _ = expected(v['files'], v['inputs'], v['skipP'])
            except Exception:
                continue
            if not veq(vexp, exp):
                continue        # the transformation itself changed the meaning (e.g. wildcard order after renaming): not comparable
            r2 = run_layout(ctx, res, v, rng, lib=False)
            try:
                if r2['rc'] != 0 or r2['stdout'] != run['stdout']:
                    return res.violate('metamorphic', 'output changes under %s (same layers, same resolved order)' % nm, case=case, variant=v,
                                       first=run['stdout'].decode('utf-8', 'replace'), second=r2['stdout'].decode('utf-8', 'replace'), stderr=r2['stderr'])
                res.ev('metamorphic_' + nm)
            finally:
                ctx.cleanup_case(r2['dir'])
        # the input delivered on standard input (-.<ext>): same bytes, same directory; applicable when the input's parents do not come
        # from its file name (it has a $parent directive, or a two-part name)
        if len(inputs) == 1 and not case['skipP']:
            ip = inputs[0]
            e = files.get(ip) or {}
            base = posixpath.basename(ip)
            has_dir = any(isinstance(x, dict) and '$parent' in x for x in e.get('docs', []))
            if 'link' not in e and not e.get('raw') and base.count('.') >= 1 and base.rsplit('.', 1)[-1] in EXTS and (has_dir or base.count('.') == 1) \
                    and not any('link' in e2 and real_of(files, q) == ip for q, e2 in files.items()):
                full = os.path.join(d, ip)
                data = open(full, 'rb').read()
                r3 = cli([ctx.bin('bkl'), '-f', 'json', '--', '-.' + base.rsplit('.', 1)[-1]], cwd=os.path.dirname(full), stdin=data)
                res.execs += 1
                if crashed(r3.rc, r3.err):
                    return res.violate('crash', 'bkl crashed reading the input from stdin: rc=%s' % r3.rc, case=case)
                if r3.rc != 0 or r3.out != run['stdout']:
                    return res.violate('metamorphic', 'output changes when the input file is delivered on standard input (same bytes, same directory)', case=case,
                                       first=run['stdout'].decode('utf-8', 'replace'), second=r3.out.decode('utf-8', 'replace'), stderr=r3.err.decode('utf-8', 'replace')[-300:])
                res.ev('metamorphic_stdin')
    finally:
        ctx.cleanup_case(d)
    return res
