"""C18 With a root directory set, nothing outside it is ever read (syscall-trace monitor + non-interference monitor)."""
import json
import os
import re
import shutil
import subprocess

from ..core import crashed, Result, out_bytes, cli, scrub_env
from .. import ser
from ..val import clone

ID = 'C18'
SIZES = {'quick': 400, 'thorough': 80000}
REQUIRED_EVENTS = ['noninterference_triples', 'strace_runs', 'probes_toward_outside']
RULE = ('sandbox trees T/<root>/..., with decoy layer files outside the root (T/outside, and siblings whose names extend the root\'s name: '
        '<root>-old, <root>2, <root>.yaml); inputs inside the root reach for the decoys through $parent with .., absolute paths, wildcards, '
        'file and directory symlinks (relative, absolute, chained, leaving and re-entering), and filename chains through a symlinked directory; '
        'root spelled root / . / .. / absolute / through a symlinked directory (CLI -r) and nested SetRoot sequences incl. escape attempts '
        '(library). Monitors: (1) the binary runs under strace -f -y; a read/pread64/readv/mmap on a regular file under T but outside the root is '
        'a violation (stat/readlink/getdents probes are counted, not judged); (2) non-interference: every case is re-run with all decoys '
        'rewritten and with all decoys removed - stdout/Output and status must not change, and decoy content must never appear. '
        'Non-trivial = the case attempts to reach outside the root; distinct = distinct (layout, attempt, root spelling).')
ASSUMPTIONS = ['reads of the Go runtime\'s own files outside T (/proc, /sys, /etc) are not judged', 'error text may differ between "missing" and "escapes the root"']

ATTEMPTS = ['symlink-abs-inside-then-out', 'symlink-abs-dir-then-out', 'parent-dotdot', 'parent-prefix-sibling', 'parent-root-file-sibling', 'symlink-file', 'symlink-file-child', 'symlink-dir-input', 'symlink-dir-parent', 'parent-absolute',
            'parent-wildcard', 'symlink-chain', 'reenter-path', 'reenter-symlink', 'symlink-absolute', 'control',
            'parent-list-mixed', 'parent-sibling-link', 'parent-list-mixed-missing', 'chain-sibling-link']
SPELLINGS = ['name', 'dot', 'dotdot', 'absolute', 'via-symlink', 'empty', 'long-empty', 'trailing-slash', 'dot-slash']
ROOTS = ['root', 'conf', 'r']


def gen_case(rng, i, tier):
    return {'attempt': ATTEMPTS[i % len(ATTEMPTS)] if i < 4 * len(ATTEMPTS) else rng.choice(ATTEMPTS), 'spelling': rng.choice(SPELLINGS), 'root': rng.choice(ROOTS),
            'ext': rng.choice(['yaml', 'json', 'toml']), 'lib': rng.random() < 0.35, 'skipP': rng.random() < 0.2, 'preload': rng.random() < 0.3, 'nested': rng.choice([None, 'dotdot', 'absolute', 'symlink', 'prefix', 'same', 'same-twice', 'same-dot']), 'salt': rng.randrange(1000)}


def fixed_cases(tier):
    out = []
    for a in ATTEMPTS:
        for sp in SPELLINGS:
            out.append({'attempt': a, 'spelling': sp, 'root': 'conf', 'ext': 'yaml', 'lib': False, 'nested': None, 'salt': 0})
        for n in ('dotdot', 'absolute', 'symlink', 'prefix', 'same', 'same-twice', 'same-dot', None):
            out.append({'attempt': a, 'spelling': 'name', 'root': 'conf', 'ext': 'yaml', 'lib': True, 'nested': n, 'salt': 0})
    return out


def write(path, fmt, doc):
    os.makedirs(os.path.dirname(path), exist_ok=True)
    with open(path, 'w') as f:
        f.write(ser.write(fmt, [doc], None, 'quoted'))


def build(T, case, decoy_mode):
    """Create the tree. decoy_mode: 'v1' / 'v2' (rewritten content) / 'absent'. Returns (root dir name, input path relative to root)."""
    R = case['root']
    ext = case['ext']
    a = case['attempt']
    root = os.path.join(T, R)
    os.makedirs(os.path.join(root, 'sub'))
    salt = case['salt']
    dec = {'leak': 'DECOY-%s-%d' % (decoy_mode, salt), 'trace': ['decoy-' + decoy_mode]}
    inner = {'inner': 'ok', 'trace': ['inner']}
    write(os.path.join(root, 'inner.' + ext), ext, inner)
    decoys = [os.path.join(T, 'outside', 'decoy.' + ext), os.path.join(T, R + '-old', 'decoy.' + ext), os.path.join(T, R + '2', 'decoy.' + ext), os.path.join(T, R + '.' + ext),
              os.path.join(T, 'outside', 'x.' + ext), os.path.join(T, 'outside', 'inner.' + ext)]
    os.makedirs(os.path.join(T, 'outside'), exist_ok=True)
    if decoy_mode != 'absent':
        for p in decoys:
            write(p, ext, dec)
    body = {'mine': 1, 'trace': ['input']}
    inp = 'in.' + ext
    absT = os.path.realpath(T)
    if a == 'parent-dotdot':
        body['$parent'] = '../outside/decoy'
    elif a == 'parent-prefix-sibling':
        body['$parent'] = '../%s/decoy' % (R + ('-old' if salt % 2 else '2'))
    elif a == 'parent-root-file-sibling':
        body['$parent'] = '../' + R
    elif a == 'parent-absolute':
        body['$parent'] = os.path.join(absT, 'outside', 'decoy')
    elif a == 'parent-wildcard':
        body['$parent'] = '../outside/*'
    elif a == 'symlink-file':
        os.symlink('../outside/decoy.' + ext, os.path.join(root, 'l.' + ext))
        inp = 'l.' + ext
        body = None
    elif a == 'symlink-absolute':
        os.symlink(os.path.join(absT, 'outside', 'decoy.' + ext), os.path.join(root, 'l.' + ext))
        inp = 'l.' + ext
        body = None
    elif a == 'symlink-file-child':
        os.symlink('../outside/decoy.' + ext, os.path.join(root, 'l.' + ext))
        inp = 'l.child.' + ext
    elif a == 'symlink-dir-input':
        os.symlink('../outside', os.path.join(root, 'd'))
        inp = 'd/x.' + ext
        body = None
    elif a == 'symlink-dir-parent':
        os.symlink('../outside', os.path.join(root, 'd'))
        body['$parent'] = 'd/decoy'
    elif a == 'symlink-chain':
        os.symlink('l2.' + ext, os.path.join(root, 'l1.' + ext))
        os.symlink('sub/l3.' + ext, os.path.join(root, 'l2.' + ext))
        os.symlink('../../outside/decoy.' + ext, os.path.join(root, 'sub', 'l3.' + ext))
        body['$parent'] = 'l1'
    elif a == 'symlink-abs-inside-then-out':
        os.symlink(os.path.join(absT, R, 'l2.' + ext), os.path.join(root, 'l1.' + ext))       # absolute, but lexically inside the root
        os.symlink('../outside/decoy.' + ext, os.path.join(root, 'l2.' + ext))                # the next hop leaves
        body['$parent'] = 'l1'
    elif a == 'symlink-abs-dir-then-out':
        os.symlink(os.path.join(absT, R, 'sub'), os.path.join(root, 'dlink'))
        os.symlink('../../outside/decoy.' + ext, os.path.join(root, 'sub', 'decoy.' + ext))
        body['$parent'] = 'dlink/decoy'
    elif a == 'reenter-path':
        body['$parent'] = '../%s/inner' % R          # leaves the root textually and comes back: a file inside the root, allowed
    elif a == 'reenter-symlink':
        if decoy_mode != 'absent':
            os.symlink('../%s/inner.%s' % (R, ext), os.path.join(T, 'outside', 'back.' + ext))
        os.symlink('../outside/back.' + ext, os.path.join(root, 'l.' + ext))
        body['$parent'] = 'l'
    elif a == 'control':
        body['$parent'] = 'inner'
    elif a == 'parent-list-mixed':
        body['$parent'] = ['inner', '../outside/decoy']       # one parent inside, one outside
    elif a == 'parent-list-mixed-missing':
        body['$parent'] = ['../outside/decoy', 'inner', 'nosuchlayer']
    elif a == 'parent-sibling-link':
        # the parent name is provided by a file inside the root, and by a link (other extension) that leaves the root
        other = 'json' if ext != 'json' else 'yaml'
        os.symlink('../outside/decoy.' + other, os.path.join(root, 'inner.' + other))
        if decoy_mode != 'absent':
            write(os.path.join(T, 'outside', 'decoy.' + other), other, dec)
        body['$parent'] = 'inner'
    elif a == 'chain-sibling-link':
        # the parent by file name (in.child -> in) is provided by a file inside the root and, under another extension, by a link
        # that leaves the root (dangling when the decoys are absent)
        pairs = [('json', 'yaml'), ('yaml', 'json'), ('toml', 'json'), ('json', 'toml'), ('yml', 'toml')]
        realext, linkext = pairs[salt % len(pairs)]
        write(os.path.join(root, 'par.' + realext), 'yaml' if realext == 'yml' else realext, {'real': True, 'trace': ['par']})
        os.symlink('../outside/decoy.' + linkext, os.path.join(root, 'par.' + linkext))
        if decoy_mode != 'absent':
            write(os.path.join(T, 'outside', 'decoy.' + linkext), linkext, dec)
        inp = 'par.child.' + ext
    if body is not None:
        write(os.path.join(root, inp), ext, body)
    os.symlink(R, os.path.join(T, 'rootlink'))
    return R, inp


def invocation(T, case, R, inp):
    """(cwd, -r argument, input path as given on the command line)."""
    sp = case['spelling']
    root = os.path.join(T, R)
    if sp == 'name':
        return T, R, os.path.join(R, inp)
    if sp == 'dot':
        return root, '.', inp
    if sp == 'dotdot':
        return os.path.join(root, 'sub'), '..', os.path.join('..', inp)
    if sp == 'absolute':
        return T, os.path.realpath(root), os.path.join(R, inp)
    if sp in ('empty', 'long-empty'):
        return root, '', inp
    if sp == 'trailing-slash':
        return T, R + '/', os.path.join(R, inp)
    if sp == 'dot-slash':
        return T, './' + R, './' + os.path.join(R, inp)
    return T, 'rootlink', os.path.join('rootlink', inp)


READ_RE = re.compile(r'\b(read|pread64|readv|preadv|preadv2|mmap)\((?:[^,]*, )*?(\d+)<([^>]+)>')
FD_RE = re.compile(r'\b(read|pread64|readv|preadv|mmap)\((?:NULL, \d+, [A-Z_|]+, [A-Z_|]+, )?(\d+)<([^>]+)>')


def outside_reads(trace, T, root):
    """Paths of regular files under T but outside root whose contents were read."""
    T = os.path.realpath(T)
    rootp = os.path.realpath(root)
    bad = []
    probes = 0
    for line in trace.split('\n'):
        if 'outside' in line or '-old' in line or '2/decoy' in line:
            probes += 1
        m = re.search(r'\b(read|pread64|readv|preadv)\((\d+)<([^>]+)>', line) or re.search(r'\bmmap\([^)]*?(\d+)<([^>]+)>', line)
        if not m:
            continue
        path = m.group(m.lastindex)
        if not path.startswith(T + '/'):
            continue
        if path == rootp or path.startswith(rootp + '/'):
            continue
        if os.path.isdir(path):
            continue
        bad.append(path)
    return bad, probes


def run_cli(ctx, res, case, mode, strace):
    T = ctx.casedir()
    R, inp = build(T, case, mode)
    cwd, rarg, ipath = invocation(T, case, R, inp)
    argv = [ctx.bin('bkl'), '-f', 'json', '-r', rarg] + (['-P'] if case.get('skipP') else []) + [ipath]
    if case['spelling'] == 'long-empty':
        argv = [ctx.bin('bkl'), '-f', 'json', '--root-path='] + (['-P'] if case.get('skipP') else []) + [ipath]
    if case.get('skipP') and case.get('salt', 0) % 2:
        argv = [ctx.bin('bkl'), '-P', '-f', 'json', ipath, '-r', rarg]
    trace = ''
    if strace:
        tf = os.path.join(T, 'strace.out')
        argv = ['strace', '-f', '-y', '-qq', '-e', 'trace=openat,open,read,pread64,readv,preadv,mmap,readlinkat,newfstatat,statx,getdents64', '-o', tf] + argv
    r = cli(argv, cwd=cwd, budget=0)
    res.execs += 1
    if strace:
        try:
            trace = open(tf, errors='replace').read()
        except OSError:
            trace = ''
    out = {'rc': r.rc, 'stdout': r.out, 'stderr': r.err.decode('utf-8', 'replace')[-300:], 'trace': trace, 'T': T, 'root': os.path.join(T, R)}
    return out


def run_lib(ctx, res, case, mode):
    T = ctx.casedir()
    R, inp = build(T, case, mode)
    root = os.path.join(T, R)
    seq = [{'op': 'set_root', 'path': T}, {'op': 'set_root', 'path': root}]
    n = case['nested']
    if n == 'dotdot':
        seq.append({'op': 'set_root', 'path': os.path.join(root, '..')})
    elif n == 'absolute':
        seq.append({'op': 'set_root', 'path': os.path.join(T, 'outside')})
    elif n == 'symlink':
        if not os.path.lexists(os.path.join(root, 'esc')):
            os.symlink('../outside', os.path.join(root, 'esc'))
        seq.append({'op': 'set_root', 'path': os.path.join(root, 'esc')})
    elif n == 'prefix':
        seq.append({'op': 'set_root', 'path': os.path.join(T, R + '-old')})
    elif n == 'same':
        seq.append({'op': 'set_root', 'path': root})
    elif n == 'same-twice':
        seq += [{'op': 'set_root', 'path': root}, {'op': 'set_root', 'path': root}]
    elif n == 'same-dot':
        seq.append({'op': 'set_root', 'path': os.path.join(root, '.')})
    seq.append({'op': 'merge_layers', 'path': os.path.join(root, inp)})
    # after an escape attempt also try to load a decoy directly
    seq.append({'op': 'merge_layers', 'path': os.path.join(T, 'outside', 'decoy.' + case['ext'])})
    seq.append({'op': 'output', 'format': 'json'})
    ops = [dict(o, parser=0) for o in seq]
    npre = 0
    if case.get('preload'):
        # a second parser reads files outside the future root *before* the root is narrowed; afterwards it must behave
        # exactly like the parser that never saw them (nothing read earlier may stay reachable)
        pre = []
        for pth in (os.path.join(T, 'outside', 'decoy.' + case['ext']), os.path.join(T, R + '-old', 'decoy.' + case['ext']), os.path.join(T, 'outside', 'x.' + case['ext'])):
            if os.path.exists(pth):
                pre.append({'op': 'merge_layers', 'path': pth, 'parser': 1})
        npre = len(pre)
        ops += pre + [dict(o, parser=1) for o in seq]
    resp = ctx.call(ops, res)
    return {'resp': resp, 'T': T, 'nseq': len(seq), 'npre': npre}


def check_case(ctx, case):
    res = Result()
    res.labels.add('attempt:' + case['attempt'])
    res.nontrivial = case['attempt'] != 'control' or case['nested'] is not None
    dirs = []
    try:
        if case['lib']:
            res.labels.add('via:library' + (':nested-' + case['nested'] if case['nested'] else ''))
            runs = {}
            for mode in ('v1', 'v2', 'absent'):
                o = run_lib(ctx, res, case, mode)
                dirs.append(o['T'])
                if o['resp'] is None:
                    return res.violate('crash', 'worker died', case=case)
                allrs = o['resp']['results']
                rs = allrs[:o['nseq']]
                for r in allrs:
                    if r.get('panic'):
                        return res.violate('crash', 'panic: ' + r['panic'][:300], case=case)
                sig = [(r['err'] is None) for r in rs] + [out_bytes(rs[-1]) if rs[-1]['err'] is None else None]
                runs[mode] = sig
                if rs[-1]['err'] is None and b'DECOY' in (out_bytes(rs[-1]) or b''):
                    return res.violate('leak', 'content of a file outside the root appears in the output', case=case, out=out_bytes(rs[-1]).decode())
                if o['npre']:
                    rs2 = allrs[o['nseq'] + o['npre']:]
                    # statuses of the calls after the root was narrowed, except the final output (it legitimately holds what was merged earlier)
                    if [(r['err'] is None) for r in rs2[:-1]] != [(r['err'] is None) for r in rs[:-1]]:
                        return res.violate('stale-access', 'a file read before the root was narrowed is still reachable afterwards', case=case,
                                           with_preload=[r['err'] for r in rs2[:-1]], without=[r['err'] for r in rs[:-1]])
                    res.ev('preload_controls')
            if runs['v1'] != runs['v2'] or runs['v1'] != runs['absent']:
                return res.violate('interference', 'result depends on files outside the root (decoys rewritten / removed)', case=case,
                                   runs={k: [str(x) for x in v] for k, v in runs.items()})
            res.ev('noninterference_triples')
            return res
        res.labels.add('via:cli:' + case['spelling'])
        runs = {}
        for mode in ('v1', 'v2', 'absent'):
            o = run_cli(ctx, res, case, mode, strace=(mode == 'v1'))
            dirs.append(o['T'])
            if crashed(o['rc'], o['stderr']):
                return res.violate('crash', 'bkl died rc=%s %s' % (o['rc'], o['stderr']), case=case)
            runs[mode] = (o['rc'], o['stdout'])
            if b'DECOY' in o['stdout']:
                return res.violate('leak', 'content of a file outside the root appears in the output', case=case, stdout=o['stdout'].decode('utf-8', 'replace'))
            if mode == 'v1':
                if not o['trace'].strip():
                    res.inconclusive('strace produced no trace')
                else:
                    bad, probes = outside_reads(o['trace'], o['T'], o['root'])
                    res.ev('strace_runs')
                    res.ev('probes_toward_outside', probes)
                    if bad:
                        return res.violate('read', 'contents of file(s) outside the root were read: %s' % sorted(set(os.path.relpath(b, o['T']) for b in bad)), case=case)
        if runs['v1'] != runs['v2'] or runs['v1'] != runs['absent']:
            return res.violate('interference', 'stdout/status depend on files outside the root (decoys rewritten / removed)', case=case,
                               runs={k: [v[0], v[1].decode('utf-8', 'replace')] for k, v in runs.items()})
        res.ev('noninterference_triples')
        res.labels.add('status:%s' % runs['v1'][0])
        if (case['attempt'] == 'control' or (case['attempt'] == 'reenter-path' and case['spelling'] != 'via-symlink')) and runs['v1'][0] != 0:
            return res.violate('spurious', 'a layout that stays inside the root failed', case=case)
    finally:
        for d in dirs:
            ctx.cleanup_case(d)
    return res
