"""C05 Output round-trips in every format; the format written is the one selected (round-trip + format-selection monitors)."""
import json
import os

from ..core import Result, out_bytes, cli
from .. import gen, ser
from ..val import veq, clone

ID = 'C05'
SIZES = {'quick': 3000, 'thorough': 300000}
REQUIRED_EVENTS = ['independent_decodes', 'bkl_rereads', 'routes_agreed']
RULE = ('streams of 1-4 documents over trees of printable $-free strings with many look-alikes of other tokens (numbers, booleans, null, dates, '
        'comment/separator/indicator characters, empty and padded strings, quotes, backslashes, non-ASCII; thorough also interior newlines and '
        '---/+++ lines inside strings), 64-bit integers, doubles, bools, empty maps and lists, map/list/scalar roots (TOML: map roots). kind=rt: '
        'Output(f) for f in json jsonl json-pretty yaml yml toml is decoded by an independent parser (python json, PyYAML with YAML-1.2 core '
        'schema, tomllib) and written to a file that bkl reads back (MergeFile); both must give the same sequence of the same values. '
        'kind=route: for combinations of -f, -o <name.ext>, real vs virtual input extension (binary) and OutputToFile(path,"") / '
        'OutputToWriter(w,"") (library) the bytes written must equal Output(f) for the format the rule selects. Non-trivial = a look-alike or '
        'edge value present / a route with two competing format sources; distinct = distinct (stream) or (route).')
ASSUMPTIONS = ['int-vs-float spelling of integral doubles is not judged (numeric equality)', 'YAML 1.1-only readings (PyYAML default resolver) are counted, not judged',
               'the key/value "<<" and strings with a leading newline in YAML output are recorded known findings, excluded from the generated alphabet']

LOOK = ['1', '01', '1e3', '0x10', '0o7', '1_000', '+1', '-0', '.5', '1.', 'true', 'True', 'No', 'yes', 'on', 'y', 'null', 'Null', '~', '2001-01-01', '2001-01-01T00:00:00Z',
        '12:30', '1:20', '# x', 'a #b', '---', '+++', '...', 'a: b', 'a:', ':a', '- x', '-', '&a', '*a', '!x', '!!str', '|', '>', '', ' ', ' lead', 'trail ', 'q"uo', "s'q", "''", '""',
        'back\\slash', '\\n', 'ünï', '日本', 'tab\there', '[x]', '{y}', '[', '}', ',', '%a', '@a', '`a', '?', '? a', '=', '.inf', '.nan', 'NaN', 'inf', '0.1', '1e100', 'key=val', 'a,b']
LOOK_NL = ['a\nb', 'x\n---\ny', 'x\n+++\ny', 'trail\n', 'a\n\nb', '---\n', 'a\n...\nb', 'k: v\n- x']
NUMS = [0, 1, -1, 7, 2**31, -2**31 - 1, 2**53 + 1, 2**63 - 1, -2**63, 1.5, 0.1, 1 / 3, 1e100, 5e-324, 1.7976931348623157e308, -2.5, 2.0, 1e21, 123456789.123]


def pool(tier):
    return LOOK + (LOOK_NL if tier == 'thorough' else []) + NUMS + [True, False] + ['plain', 'x']


def gen_case(rng, i, tier):
    if i % 10 == 9:
        return gen_route(rng, i, tier)
    P = pool(tier)
    keys = ['a', 'b', 'c'] + rng.sample(LOOK, 4)
    n = rng.choice([1, 1, 2, 3, 4])
    docs = []
    allmap = rng.random() < 0.6
    for _ in range(n):
        root = 'map' if allmap else rng.choice(['map', 'list', None])
        d = gen.tree(rng, 3, 3, nulls=False, root=root, pool=P, keys=keys)
        docs.append(d)
    return {'kind': 'rt', 'docs': docs}


EXTS = ['json', 'jsonl', 'json-pretty', 'yaml', 'yml', 'toml']
FLAGF = ['json', 'json-pretty', 'toml', 'yaml']


def gen_route(rng, i, tier):
    doc = gen.tree(rng, 2, 3, nulls=False, root='map', pool=['x', 1, 1.5, True, 'true', '1'])
    doc['id'] = i
    real = rng.choice(['json', 'yaml', 'toml', 'yml', 'jsonl'])
    c = {'kind': 'route', 'docs': [doc], 'real': real, 'named': rng.choice(EXTS + [real, real]), 'flag': rng.choice(FLAGF + [None, None]),
         'out': rng.choice(EXTS + [None, None, None]), 'lib': rng.random() < 0.3}
    if not c["lib"] and rng.random() < 0.3:
        # the input comes from standard input, named -.<ext>: that extension is the first input's extension
        c['named'] = real
        c['stdin'] = True
    return c


def fixed_cases(tier):
    out = []
    for s in LOOK + (LOOK_NL if tier == 'thorough' else []):
        out.append({'kind': 'rt', 'docs': [{'k': s, s if s else 'e': 'v', 'l': [s, [s]], 'm': {'n': s}}]})
    out.append({'kind': 'rt', 'docs': [{}, {'a': 1}, {}]})
    out.append({'kind': 'rt', 'docs': [{}, {}]})
    out.append({'kind': 'rt', 'docs': [{'a': {}, 'b': [], 'c': [[], {}], 'd': {'e': {}}}]})
    out.append({'kind': 'rt', 'docs': [[], [1, 'a'], 'scalar', 5, True, 1.5]})
    out.append({'kind': 'rt', 'docs': [{'n': NUMS}]})
    for real in ('json', 'yaml', 'toml'):
        for named in EXTS:
            for flag in FLAGF + [None]:
                for o in EXTS + [None]:
                    out.append({'kind': 'route', 'docs': [{'a': 1, 's': 'true'}], 'real': real, 'named': named, 'flag': flag, 'out': o, 'lib': False})
    for o in EXTS:
        out.append({'kind': 'route', 'docs': [{'a': 1, 's': 'true'}], 'real': 'json', 'named': 'json', 'flag': None, 'out': o, 'lib': True})
    out.append({'kind': 'route', 'docs': [{'a': 1}], 'real': 'json', 'named': 'json', 'flag': None, 'out': None, 'lib': True})
    return out


def shrink(case):
    if case['kind'] != 'rt':
        return
    from ..shrink import shrink_tree
    docs = case['docs']
    if len(docs) > 1:
        for i in range(len(docs)):
            yield dict(case, docs=docs[:i] + docs[i + 1:])
    for i, d in enumerate(docs):
        for t in shrink_tree(d):
            yield dict(case, docs=docs[:i] + [t] + docs[i + 1:])


def check_case(ctx, case):
    if case['kind'] == 'route':
        return check_route(ctx, case)
    res = Result()
    docs = case['docs']
    if any(d is None for d in docs):
        return res.skip('null document')
    strs = [s for d in docs for s in __import__('bv.val', fromlist=['x']).strings_of(d)]
    if any('$' in s for s in strs):
        return res.skip('$ in a string')
    res.nontrivial = any(s in LOOK or s in LOOK_NL for s in strs) or any(isinstance(x, (int, float)) and not isinstance(x, bool) and (abs(x) > 2**31 or isinstance(x, float)) for d in docs for p, x in __import__('bv.val', fromlist=['x']).walk(d))
    toml_possible = all(ser.toml_ok(d) for d in docs)
    fmts = [f for f in EXTS if f != 'toml' or toml_possible]
    ops = [{'op': 'merge_doc', 'id': 'd%d' % i, 'data': d} for i, d in enumerate(docs)]
    ops.append({'op': 'output_docs'})
    for f in fmts:
        ops.append({'op': 'output', 'format': f})
    # later encodings of other content in the same process must not disturb the bytes already returned
    ops.append({'op': 'merge_doc', 'id': 'other', 'data': {'other': [1, 'two', {'three': 3.5}], 'pad': 'x' * 40}, 'parser': 1})
    for f in ('json', 'yaml', 'toml', 'jsonl'):
        ops.append({'op': 'output', 'format': f, 'parser': 1})
    # the writer route (stdout of the CLI, OutputToFile) must deliver exactly the bytes Output returns
    wsel = fmts[case.get('i', 0) % len(fmts)]
    ops.append({'op': 'to_writer', 'format': wsel})
    resp = ctx.call(ops, res)
    if res.verdict == 'violated':
        return res
    if resp is None:
        return res.violate('crash', 'worker died', docs=docs)
    rs = resp['results']
    wres = rs[-1]
    ref = rs[len(docs) + 1 + fmts.index(wsel)]
    if not wres.get('panic') and ref['err'] is None:
        if wres['err'] is not None or out_bytes(wres) != out_bytes(ref):
            return res.violate('roundtrip', 'OutputToWriter(%s) does not deliver the bytes Output(%s) returns' % (wsel, wsel), docs=docs, err=wres['err'],
                               writer=out_bytes(wres).decode('utf-8', 'replace') if wres['err'] is None else None, output=out_bytes(ref).decode('utf-8', 'replace'))
        res.ev('writer_route_agreed')
    for r in rs:
        if r.get('panic'):
            return res.violate('crash', 'panic: ' + r['panic'][:300], docs=docs)
    n = len(docs)
    if rs[n]['err'] is not None:
        return res.violate('roundtrip', 'plain stream failed to evaluate: %s' % rs[n]['err'], docs=docs)
    if not veq(rs[n]['values'], docs):
        return res.violate('roundtrip', 'evaluated documents differ from the plain input', docs=docs, got=rs[n]['values'])
    d = ctx.casedir()
    ops2 = []
    for k, f in enumerate(fmts):
        o = rs[n + 1 + k]
        if o['err'] is not None:
            ctx.cleanup_case(d)
            return res.violate('roundtrip', 'Output(%s) failed: %s' % (f, o['err']), docs=docs)
        data = out_bytes(o)
        try:
            text = data.decode('utf-8')
            back = ser.parse(f, text)
        except Exception as e:
            ctx.cleanup_case(d)
            return res.violate('roundtrip', '%s output does not parse with an independent %s parser: %s' % (f, f, e), docs=docs, text=data.decode('utf-8', 'replace'))
        if not veq(back, docs, loose=True):
            ctx.cleanup_case(d)
            return res.violate('roundtrip', '%s output decoded by an independent parser is not the same documents' % f, docs=docs, text=text, back=back)
        res.ev('independent_decodes')
        if f in ('yaml', 'yml'):
            try:
                b11 = ser.parse_yaml_stream(text, core=False)
                if not veq(b11, docs, loose=True):
                    res.ev('yaml11_reader_differs(not judged)')
            except Exception:
                res.ev('yaml11_reader_differs(not judged)')
        path = os.path.join(d, 'rt.' + f)
        with open(path, 'wb') as fh:
            fh.write(data)
        ops2 += [{'op': 'merge_file', 'path': path, 'parser': k}, {'op': 'output_docs', 'parser': k}]
    resp2 = ctx.call(ops2, res)
    ctx.cleanup_case(d)
    if resp2 is None:
        return res.violate('crash', 'worker died while reading output back', docs=docs)
    for k, f in enumerate(fmts):
        m, v = resp2['results'][2 * k], resp2['results'][2 * k + 1]
        if m.get('panic') or v.get('panic'):
            return res.violate('crash', 'panic reading %s output back' % f, docs=docs)
        if m['err'] is not None or v['err'] is not None:
            return res.violate('roundtrip', 'bkl cannot read back its own %s output: %s' % (f, m['err'] or v['err']), docs=docs, text=out_bytes(rs[n + 1 + k]).decode('utf-8', 'replace'))
        if not veq(v['values'], docs, loose=True):
            return res.violate('roundtrip', 'bkl reads back different documents from its own %s output' % f, docs=docs, text=out_bytes(rs[n + 1 + k]).decode('utf-8', 'replace'), back=v['values'])
        res.ev('bkl_rereads')
    if case.get('i', 0) % 3 == 0 and isinstance(docs[0], dict) and 'zz_late' not in docs[0]:
        # Output after a later layer landed in an existing document: the bytes must decode to what OutputDocuments returns NOW
        ops3 = [{'op': 'merge_doc', 'id': 'd%d' % i, 'data': x, 'parser': 40} for i, x in enumerate(docs)]
        ops3 += [{'op': 'output', 'format': wsel, 'parser': 40},
                 {'op': 'merge_doc', 'id': 'late', 'parents': ['d0'], 'data': {'zz_late': 'added'}, 'parser': 40},
                 {'op': 'output', 'format': wsel, 'parser': 40}, {'op': 'output_docs', 'parser': 40}]
        resp3 = ctx.call(ops3, res)
        if resp3 is None:
            return res.violate('crash', 'worker died (output after a second merge)', docs=docs)
        o2, v2 = resp3['results'][-2], resp3['results'][-1]
        if any(r.get('panic') or r['err'] is not None for r in resp3['results']):
            return res.violate('roundtrip', 'output after a second merge failed', docs=docs, errs=[r['err'] for r in resp3['results']])
        want2 = [dict(docs[0], zz_late='added')] + list(docs[1:])
        if not veq(v2['values'], want2):
            return res.violate('roundtrip', 'evaluated documents after a second merge differ from the plain input plus the late key', docs=docs, got=v2['values'])
        try:
            back2 = ser.parse(wsel, out_bytes(o2).decode('utf-8'))
        except Exception as e:
            return res.violate('roundtrip', '%s output after a second merge does not parse: %s' % (wsel, e), docs=docs)
        if not veq(back2, want2, loose=True):
            return res.violate('roundtrip', '%s output produced after a later layer was merged does not decode to the documents OutputDocuments returns (stale bytes)' % wsel,
                               docs=docs, text=out_bytes(o2).decode('utf-8', 'replace'), back=back2)
        res.ev('outputs_after_second_merge')
    res.labels.add('docs:%d' % n)
    res.labels.add('toml:' + ('yes' if toml_possible else 'no'))
    return res


def check_route(ctx, case):
    res = Result()
    doc = case['docs'][0]
    real, named, flag, outext, lib = case['real'], case['named'], case['flag'], case['out'], case['lib']
    d = ctx.casedir()
    inpath = os.path.join(d, 'in.' + real)
    with open(inpath, 'w') as f:
        f.write(ser.write(real, [doc], style='quoted' if real in ('yaml', 'yml') else None))
    # the rule: -f, else the -o extension, else the first input's (possibly virtual) extension; library default json-pretty
    if lib:
        sel = outext if outext else 'json-pretty'
    else:
        sel = flag or outext or named
    res.labels.add('route:%s%s%s%s' % ('lib' if lib else 'cli', '+f' if flag and not lib else '', '+o' if outext else '', '+virtual' if named != real and not lib else ''))
    res.nontrivial = sum(1 for x in (flag, outext, named != real) if x) >= 1
    import random as _random
    # the output file's format is named by its LAST extension; the name may hold more dots
    ostem = _random.Random(json.dumps(case, sort_keys=True, default=str) + 'o').choice(['out', 'out', 'service.prod', 'result.v1.2', 'a.json', 'x.yaml.bak'])
    if ostem != 'out' and outext:
        res.labels.add('route:dotted-output-name')
    ops = [{'op': 'merge_file', 'path': inpath}, {'op': 'output', 'format': sel}]
    if lib:
        if outext:
            ops.append({'op': 'to_file', 'path': os.path.join(d, 'lib' + ostem + '.' + outext), 'format': ''})
        else:
            ops.append({'op': 'to_writer', 'format': ''})
    resp = ctx.call(ops, res)
    if resp is None:
        ctx.cleanup_case(d)
        return res.violate('crash', 'worker died', case=case)
    rs = resp['results']
    if rs[0]['err'] or rs[1]['err']:
        ctx.cleanup_case(d)
        return res.violate('route', 'library failed: %s' % (rs[0]['err'] or rs[1]['err']), case=case)
    want = out_bytes(rs[1])
    if lib:
        if rs[2]['err']:
            ctx.cleanup_case(d)
            return res.violate('route', 'library output call failed: %s' % rs[2]['err'], case=case)
        got = open(os.path.join(d, 'lib' + ostem + '.' + outext), 'rb').read() if outext else out_bytes(rs[2])
    else:
        import random
        rr = random.Random(json.dumps(case, sort_keys=True, default=str))
        argv = [ctx.bin('bkl')]
        parts = []
        if flag:
            parts.append(rr.choice([['-f', flag], ['-f' + flag], ['--format=' + flag], ['--format', flag]]))
        if outext:
            oname = ostem + '.' + outext
            parts.append(rr.choice([['-o', oname], ['--output=' + oname], ['-o' + oname], ['--output', oname]]))
            if rr.random() < 0.4:
                with open(os.path.join(d, oname), 'w') as f:     # an existing, longer file must be replaced completely
                    f.write('stale content that is longer than any output ' * 40)
        stdin_data = b''
        if case.get('stdin'):
            stdin_data = open(inpath, 'rb').read()
            for p_ in parts:
                argv += p_
            argv += ['--', '-.' + named]
            res.labels.add('route:+stdin')
        else:
            parts.append([rr.choice(['in.' + named, './in.' + named])])
            if rr.random() < 0.3:
                rr.shuffle(parts)
            for p_ in parts:
                argv += p_
        dbg = rr.random()
        env = None
        if dbg < 0.1:
            argv.insert(1, rr.choice(['-v', '--verbose']))
            res.labels.add('route:+verbose')
        elif dbg < 0.2:
            from ..core import scrub_env
            env = scrub_env({'BKL_DEBUG': '1'})
            res.labels.add('route:+BKL_DEBUG')
        r = cli(argv, cwd=d, env=env, stdin=stdin_data)
        res.execs += 1
        if r.rc != 0:
            ctx.cleanup_case(d)
            return res.violate('route', 'bkl %s failed: %s' % (' '.join(argv[1:]), r.err[-200:].decode('utf-8', 'replace')), case=case)
        if outext:
            if r.out:
                ctx.cleanup_case(d)
                return res.violate('route', 'bkl -o also wrote to stdout', case=case)
            got = open(os.path.join(d, oname), 'rb').read()
        else:
            got = r.out
    ctx.cleanup_case(d)
    if got != want:
        return res.violate('route', 'bytes written are not Output(%s), the format the selection rule names' % sel, case=case, want=want.decode('utf-8', 'replace'), got=got.decode('utf-8', 'replace'))
    res.ev('routes_agreed')
    return res
