"""C04 Results do not depend on which format a layer is written in (metamorphic over format assignments + reference stream model)."""
import itertools
import json
import os
import random

from ..core import Result, out_bytes
from .. import gen, model, ser
from ..val import veq, clone, drop_nulls, has_marker
from .c02 import Stream

ID = 'C04'
NEED_BINS = True
SIZES = {'quick': 1200, 'thorough': 80000}
REQUIRED_EVENTS = ['assignments_compared', 'typed_results_agreed', 'decodes_agreed']
RULE = ('layer sets of 1-3 layers x 1-2 documents over map-rooted, null-free trees of printable strings, 64-bit integers (> 2^31, > 2^53), '
        'doubles (0.1, 17-digit values, extremes), bools and nested containers; children are built so that comparisons decide the result: '
        'document-level $match and list $match/$delete patterns containing numbers, $repeat counts, same-value overrides. Every one of the 3^n '
        'assignments of JSON/YAML/TOML is written with the harness\'s own serializers (random styles: YAML block/flow/plain/quoted, TOML '
        'tables/inline/dotted) plus a YAML variant with anchor, alias and merge key and evaluated by the real library from files (a sample by the '
        'binary); all assignments must agree on success and give byte-identical json, yaml and toml output, and the common result must equal the '
        'reference model on the logical trees with integers exact and doubles bit-identical (typed comparison). Non-trivial = >= 2 layers or a '
        'numeric comparison; distinct = distinct layer sets.')
ASSUMPTIONS = ['stream/merge model (harness/bv/model.py, props/c02.py)', 'values no format can express (null, NaN, Inf, -0.0, >64-bit integers) are not generated']

FMTS = ['json', 'yaml', 'toml']
INTS = [0, 1, 2, 7, -3, 2**31, 2**31 + 5, -2**31 - 1, 2**53 + 1, 2**63 - 1, -2**63, 1000000]
FLTS = [0.1, 1.5, 2.0, -2.5, 1 / 3, 0.30000000000000004, 1e100, 5e-324, 1.7976931348623157e308, 1e21, 123456789.123, 100.0]
STRS = ['x', 'y', '', 'zz', '1', 'true', '0.1', 'a b', 'ünï', 'q"', "s'", 'No', '2.0']


def scal(rng):
    r = rng.random()
    if r < 0.35:
        return rng.choice(INTS)
    if r < 0.65:
        return rng.choice(FLTS)
    if r < 0.9:
        return rng.choice(STRS)
    return rng.choice([True, False])


def base_doc(rng, k):
    d = gen.tree(rng, 2, 3, nulls=False, root='map', pool=INTS + FLTS + STRS + [True, False])
    d['name'] = 'n%d' % k
    d['id'] = rng.choice(INTS)
    d['ratio'] = rng.choice(FLTS)
    d['l'] = [{'n': rng.choice(INTS[:6]), 'f': rng.choice(FLTS[:5])}, {'n': rng.choice(INTS), 'v': 1}, rng.choice(INTS), rng.choice(FLTS)]
    return d


def child_doc(rng, target, labels):
    """A child that makes bkl compare numbers with the parent's."""
    c = {}
    r = rng.random()
    if r < 0.2:
        c['$match'] = {'id': target['id']}
        labels.add('cmp:doc-$match-int')
    elif r < 0.35:
        c['$match'] = {'ratio': target['ratio']}
        labels.add('cmp:doc-$match-float')
    elif r < 0.42:
        c['$match'] = {'id': target['id'] + 1 if isinstance(target['id'], int) and abs(target['id']) < 2**62 else 12345}
        labels.add('cmp:doc-$match-miss')
    for _ in range(rng.randint(1, 3)):
        r = rng.random()
        if r < 0.2:
            e = rng.choice([x for x in target['l'] if isinstance(x, dict)])
            c.setdefault('l', []).append({'$delete': {'n': e['n']}})
            labels.add('cmp:list-$delete-map-num')
        elif r < 0.35:
            e = rng.choice([x for x in target['l'] if not isinstance(x, dict)])
            c.setdefault('l', []).append({'$delete': e})
            labels.add('cmp:list-$delete-scalar-num')
        elif r < 0.5:
            e = rng.choice([x for x in target['l'] if isinstance(x, dict)])
            c.setdefault('l', []).append({'$match': {'n': e['n']}, 'w': scal(rng)})
            labels.add('cmp:list-$match-num')
        elif r < 0.62:
            k = rng.choice(['id', 'ratio'])
            c[k] = target[k]
            labels.add('cmp:same-value-override')
        elif r < 0.72:
            k = rng.choice(['id', 'ratio'])
            v = target[k]
            c[k] = float(v) if isinstance(v, int) and abs(v) < 2**53 else (int(v) if isinstance(v, float) and v.is_integer() and abs(v) < 2**53 else scal(rng))
            labels.add('cmp:int-vs-float-override')
        elif r < 0.82:
            c['$repeat'] = rng.choice([1, 2, 3])
            c['idx'] = '$"i{$repeat}"'
            labels.add('cmp:$repeat-count')
        else:
            c[rng.choice(gen.KEYS)] = scal(rng)
            labels.add('edit:set-key')
    return c


HOSTILE = ['1', '1e3', '0x10', 'true', 'No', 'null', '~', '2001-01-01', '# x', '---', '+++', 'a: b', '- x', '&a', '*a', '!x', '|', '>', '', ' lead', 'trail ', 'q"uo', "s'q", 'back\\slash',
           'ünï', '日本', '=', '1:20', 'yes', '$x', '$merge:a', '<<', 'a\nb', 'l1\nl2\n', 'x\n---\ny', 'tab\there', '[x]', '{y}', ',', 'k=v', '.5', '+1', '0o7', '1_000', '\u00e9']


def gen_decode(rng, i):
    """Decoder agreement: the same logical trees written in every format and style must be read as exactly those trees."""
    pool = INTS + FLTS + STRS + HOSTILE + [True, False]
    keys = gen.KEYS + rng.sample(HOSTILE, 3)
    docs = []
    allmap = rng.random() < 0.7
    for _ in range(rng.choice([1, 1, 2, 3])):
        d = gen.tree(rng, rng.choice([2, 3, 4]), 3, nulls=rng.random() < 0.3, root='map' if allmap else rng.choice(['map', 'list']), pool=pool, keys=keys)
        if isinstance(d, dict) and rng.random() < 0.4:
            sub = gen.tree(rng, 2, 3, nulls=False, root=rng.choice(['map', 'list']), pool=pool, keys=keys)
            d['rep1'] = sub
            d['rep2'] = {'inner': clone(sub), 'again': [clone(sub)]}
        docs.append(d)
    if rng.random() < 0.12:
        # an empty map as a whole document (in TOML: an empty stream part / an empty file)
        docs.insert(rng.randint(0, len(docs)), {})
        if rng.random() < 0.3:
            docs = [{}]
    if i % 40 == 3 and isinstance(docs[-1], dict):
        # one physical line longer than 64 KiB (a long string; in flow style the whole document is one line)
        docs[-1]['long'] = 'x' * rng.choice([65530, 65536, 70000, 131080])
        docs[-1]['after_long'] = {'still': 'here'}
    return {'kind': 'decode', 'docs': docs, 'labels': ['kind:decode']}


def gen_case(rng, i, tier):
    if i % 4 == 3:
        return gen_decode(rng, i)
    labels = set()
    nl = rng.choice([1, 2, 2, 3, 3])
    layers = []
    st = Stream()
    nb = rng.choice([1, 1, 2])
    l0 = [base_doc(rng, k) for k in range(nb)]
    layers.append(l0)
    for li in range(1, nl):
        docs = []
        for di in range(rng.choice([1, 1, 2])):
            tgt = rng.choice(l0)
            docs.append(child_doc(rng, tgt, labels))
        layers.append(docs)
    return {'layers': layers, 'labels': sorted(labels), 'cli': i % 29 == 0}


def fixed_cases(tier):
    out = []
    B = {'name': 'n0', 'id': 2**31 + 5, 'ratio': 0.1, 'l': [{'n': 1, 'f': 0.1}, {'n': 2**53 + 1, 'v': 1}, 7, 1.5]}
    kids = [{'$match': {'id': 2**31 + 5}, 'x': 1}, {'$match': {'ratio': 0.1}, 'x': 1}, {'l': [{'$delete': {'n': 1}}]}, {'l': [{'$delete': {'n': 2**53 + 1}}]}, {'l': [{'$delete': 7}]},
            {'l': [{'$delete': 1.5}]}, {'l': [{'$match': {'f': 0.1}, 'w': 1}]}, {'id': 2**31 + 5}, {'ratio': 0.1}, {'$repeat': 2, 'i': '$"{$repeat}"'}, {'id': 2**53 + 1}, {'ratio': 1 / 3},
            {'big': 2**63 - 1, 'small': -2**63, 'tiny': 5e-324, 'huge': 1.7976931348623157e308}]
    for k in kids:
        out.append({'layers': [[clone(B)], [k]], 'labels': ['fixed'], 'cli': True})
    return out


def shrink(case):
    from ..shrink import shrink_tree
    if case.get('kind') == 'decode':
        docs = case['docs']
        if len(docs) > 1:
            for i in range(len(docs)):
                yield dict(case, docs=docs[:i] + docs[i + 1:])
        for i, d in enumerate(docs):
            for t in shrink_tree(d):
                if type(t) is type(d):
                    yield dict(case, docs=docs[:i] + [t] + docs[i + 1:])
        return
    layers = case['layers']
    if len(layers) > 1:
        yield dict(case, layers=layers[:-1])
    for li in range(len(layers) - 1, -1, -1):
        if len(layers[li]) > 1:
            for di in range(len(layers[li])):
                l2 = clone(layers)
                del l2[li][di]
                yield dict(case, layers=l2)
        for di, d in enumerate(layers[li]):
            for t in shrink_tree(d):
                if isinstance(t, dict) and (li > 0 or all(k in t for k in ('name', 'id', 'ratio', 'l'))):
                    l2 = clone(layers)
                    l2[li][di] = t
                    yield dict(case, layers=l2)


def expected(layers):
    """Reference result on the logical trees (None = rejected; 'skip' = not judged)."""
    st = Stream()
    notes = model.Notes()
    prev = []
    try:
        for li, docs in enumerate(layers):
            cur = []
            for di, d in enumerate(docs):
                pid = 'L%dD%d' % (li, di)
                st.apply(pid, list(prev), d, notes)
                cur.append(pid)
            prev = cur
    except model.Reject as e:
        return None, notes, str(e)
    if notes.unspec:
        return 'skip', notes, notes.unspec[0]
    return [d[1] for d in st.docs], notes, None


def yaml_anchor_variant(doc):
    """{..., 'l': [...]} written with an anchored map reused by alias and extended through a merge key (single and list of three); returns (text, logical doc)."""
    d = clone(doc)
    tpl = {'n': 7, 'f': 0.1, 'big': 2**53 + 1}
    d['tpl'] = tpl
    d['alias'] = clone(tpl)
    d['ext'] = dict(tpl, f=1.5, extra='x')
    # `<<: [*a, *b, *c]`: earlier entries of the list win over later ones, keys written out win over all of them
    d['mrg_a'] = {'k1': 'a', 's': 'a'}
    d['mrg_b'] = {'k2': 'b', 's': 'b', 't': 'b'}
    d['mrg_c'] = {'k3': 'c', 't': 'c', 'u': 'c'}
    d['ext3'] = {'k1': 'a', 's': 'a', 'k2': 'b', 't': 'b', 'k3': 'c', 'u': 'own'}
    own = ('tpl', 'alias', 'ext', 'mrg_a', 'mrg_b', 'mrg_c', 'ext3')
    rest = {k: v for k, v in d.items() if k not in own}
    text = 'tpl: &t\n  n: 7\n  f: 0.1\n  big: %d\nalias: *t\next:\n  <<: *t\n  f: 1.5\n  extra: x\n' % (2**53 + 1)
    text += 'mrg_a: &ma {k1: a, s: a}\nmrg_b: &mb {k2: b, s: b, t: b}\nmrg_c: &mc {k3: c, t: c, u: c}\next3:\n  <<: [*ma, *mb, *mc]\n  u: own\n'
    text += ser.to_yaml(rest, style='quoted')
    return text, d


def check_decode(ctx, case):
    res = Result()
    res.labels.add('kind:decode')
    docs = case['docs']
    rng = random.Random(json.dumps(docs, sort_keys=True))
    d = ctx.casedir()
    ops = []
    meta = []
    k = 0
    toml_ok = all(ser.toml_ok(x) for x in docs)
    yaml_ok = all(isinstance(x, (dict, list)) for x in docs)
    for fmt, styles in (('json', ['compact', 'spaced', 'pretty']), ('yaml', ['quoted', 'plain', 'flow', 'rich']), ('yml', ['rich', 'plain']), ('toml', ['tables', 'inline', 'dotted']), ('jsonl', ['compact'])):
        if fmt == 'toml' and not toml_ok:
            continue
        if fmt in ('yaml', 'yml') and not yaml_ok:
            continue
        for st in styles:
            if fmt in ('json', 'jsonl'):
                text = '\n'.join(ser.to_json(x, rng, st) for x in docs) + '\n'
            else:
                text = ser.write(fmt, docs, rng, st)
            path = os.path.join(d, 'f%d.%s' % (k, fmt))
            with open(path, 'w') as fh:
                fh.write(text)
            ops += [{'op': 'merge_file', 'path': path, 'parser': k}, {'op': 'documents', 'parser': k}]
            meta.append((fmt, st, text))
            k += 1
    resp = ctx.call(ops, res)
    ctx.cleanup_case(d)
    if resp is None:
        return res.violate('crash', 'worker died', docs=docs)
    res.nontrivial = True
    for j, (fmt, st, text) in enumerate(meta):
        m, dr = resp['results'][2 * j], resp['results'][2 * j + 1]
        if m.get('panic'):
            return res.violate('crash', 'panic: ' + m['panic'][:300], docs=docs, text=text)
        if m['err'] is not None:
            return res.violate('decode', '%s (%s style) written by the harness is rejected: %s' % (fmt, st, m['err']), docs=docs, text=text)
        got = [x['data'] for x in dr['docs']]
        if not veq(got, docs):
            return res.violate('decode', '%s (%s style) is read as different documents than the same content in the other formats' % (fmt, st), docs=docs, text=text, got=got)
        res.ev('decodes_agreed')
    res.labels.add('toml:' + ('yes' if toml_ok else 'no'))
    return res


def check_decode_raw(ctx, case):
    """A hand-written file text (regression input of a recorded finding) must be read as the given documents."""
    res = Result()
    d = ctx.casedir()
    path = os.path.join(d, 'raw.' + case['fmt'])
    with open(path, 'w') as fh:
        fh.write(case['text'])
    resp = ctx.call([{'op': 'merge_file', 'path': path}, {'op': 'documents'}], res)
    ctx.cleanup_case(d)
    res.nontrivial = True
    if resp is None:
        return res.violate('crash', 'worker died', case=case)
    m, dr = resp['results']
    if m['err'] is not None:
        return res.violate('decode', '%s input is rejected: %s' % (case['fmt'], m['err']), text=case['text'])
    if not veq([x['data'] for x in dr['docs']], case['docs']):
        return res.violate('decode', '%s input is read as different documents' % case['fmt'], text=case['text'], got=dr['docs'])
    return res


def check_case(ctx, case):
    if case.get('kind') == 'decode':
        return check_decode(ctx, case)
    if case.get('kind') == 'decode-raw':
        return check_decode_raw(ctx, case)
    res = Result()
    res.labels.update(case.get('labels', []))
    layers = case['layers']
    rng = random.Random(json.dumps(layers, sort_keys=True))
    nl = len(layers)
    exp, notes, why = expected(layers)
    if exp == 'skip':
        return res.skip(why)
    assigns = list(itertools.product(FMTS, repeat=nl))
    variants = [(a, None) for a in assigns]
    if all(isinstance(d, dict) and 'tpl' not in d for d in layers[0]):
        variants.append((('yaml',) + assigns[rng.randrange(len(assigns))][1:], 'anchor'))
    d = ctx.casedir()
    ops = []
    meta = []
    for vi, (a, var) in enumerate(variants):
        sub = os.path.join(d, 'v%d' % vi)
        os.makedirs(sub)
        name = 'a'
        vlayers = layers + [[{'alias': {'n': 8, 'only_here': 1}}]] if var == 'anchor' else layers
        va = a + ('json',) if var == 'anchor' else a
        for li, docs in enumerate(vlayers):
            if li:
                name += '.l%d' % li
            f = va[li]
            if var == 'anchor' and li == 0:
                parts = []
                for dd in docs:
                    t, _ = yaml_anchor_variant(dd)
                    parts.append(t)
                text = '---\n'.join(parts)
            else:
                text = ser.write(f, docs, rng)
            with open(os.path.join(sub, '%s.%s' % (name, f)), 'w') as fh:
                fh.write(text)
        top = os.path.join(sub, '%s.%s' % (name, va[-1]))
        for o in ({'op': 'merge_layers', 'path': top}, {'op': 'output_docs'}, {'op': 'output', 'format': 'json'}, {'op': 'output', 'format': 'yaml'}, {'op': 'output', 'format': 'toml'}):
            o = dict(o, parser=vi)
            ops.append(o)
        meta.append((a, var, top))
    resp = ctx.call(ops, res)
    if resp is None:
        ctx.cleanup_case(d)
        return res.violate('crash', 'worker died', layers=layers)
    rs = resp['results']
    for r in rs:
        if r.get('panic'):
            ctx.cleanup_case(d)
            return res.violate('crash', 'panic: ' + r['panic'][:300], layers=layers)
    res.nontrivial = nl > 1
    ref = None
    for vi, (a, var, top) in enumerate(meta):
        m, v, oj, oy, ot = rs[5 * vi: 5 * vi + 5]
        status = 'ok' if m['err'] is None and oj['err'] is None else 'fail'
        this_exp = exp
        if var == 'anchor' and exp is not None:
            l2 = clone(layers)
            l2[0] = [yaml_anchor_variant(dd)[1] for dd in l2[0]]
            l2.append([{'alias': {'n': 8, 'only_here': 1}}])       # an upper layer edits under one alias site only
            this_exp, _, _ = expected(l2)
            if this_exp == 'skip':
                continue
        cur = {'status': status, 'json': out_bytes(oj) if status == 'ok' else None, 'yaml': out_bytes(oy) if status == 'ok' and oy['err'] is None else None,
               'toml': out_bytes(ot) if status == 'ok' and ot['err'] is None else None, 'err': m['err'] or oj['err'], 'assign': a}
        if var is None:
            if ref is None:
                ref = cur
            else:
                if cur['status'] != ref['status']:
                    ctx.cleanup_case(d)
                    return res.violate('format', 'formats %s %s but formats %s %s' % ('/'.join(ref['assign']), 'succeed' if ref['status'] == 'ok' else 'fail (%s)' % ref['err'],
                                                                                     '/'.join(a), 'succeed' if status == 'ok' else 'fail (%s)' % cur['err']), layers=layers)
                for of in ('json', 'yaml', 'toml'):
                    if cur[of] != ref[of]:
                        ctx.cleanup_case(d)
                        return res.violate('format', '%s output differs between format assignments %s and %s' % (of, '/'.join(ref['assign']), '/'.join(a)), layers=layers,
                                           first=(ref[of] or b'').decode('utf-8', 'replace'), second=(cur[of] or b'').decode('utf-8', 'replace'))
            res.ev('assignments_compared')
        # reference model
        if this_exp is None:
            if status == 'ok':
                ctx.cleanup_case(d)
                return res.violate('model', 'assignment %s%s accepted a layering the rules reject (%s)' % ('/'.join(a), ' +anchor' if var else '', why), layers=layers)
            res.labels.add('outcome:rejected-everywhere')
        else:
            outs = [drop_nulls(x) for x in this_exp]
            evald = not any(('$repeat' in x) for x in outs if isinstance(x, dict)) and not any(has_marker(x) for x in outs)
            if evald:
                if status != 'ok':
                    if notes.either:
                        continue
                    ctx.cleanup_case(d)
                    return res.violate('model', 'assignment %s%s failed (%s); the rules accept the layering' % ('/'.join(a), ' +anchor' if var else '', cur['err']), layers=layers, expect=outs)
                if not veq(v['values'], outs):
                    ctx.cleanup_case(d)
                    return res.violate('model', 'assignment %s%s: values differ from the logical content (numbers must be exact, integers stay integers)' % ('/'.join(a), ' +anchor' if var else ''),
                                       layers=layers, expect=outs, got=v['values'])
                res.ev('typed_results_agreed')
                if var:
                    res.ev('yaml_anchor_variants_agreed')
            else:
                res.labels.add('outcome:evaluated-not-modelled')
    if case.get('cli') and ref is not None:
        from ..core import cli
        a, var, top = meta[rng.randrange(len(assigns))]
        r = cli([ctx.bin('bkl'), '-f', 'json', os.path.basename(top)], cwd=os.path.dirname(top))
        res.execs += 1
        res.labels.add('via:cli')
        if (r.rc == 0) != (ref['status'] == 'ok') or (r.rc == 0 and r.out != ref['json']):
            ctx.cleanup_case(d)
            return res.violate('format', 'bkl binary on assignment %s differs from the library result' % '/'.join(a), layers=layers, stdout=r.out.decode('utf-8', 'replace'), stderr=r.err.decode('utf-8', 'replace')[-200:])
    ctx.cleanup_case(d)
    res.labels.add('layers:%d' % nl)
    return res
