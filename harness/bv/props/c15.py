"""C15 bkld round trip: base + bkld(base, target) evaluates to target (process-boundary metamorphic monitor)."""
import json
import os

from ..core import Result, cli
from .. import ser, edits
from ..val import veq, clone

ID = 'C15'
SIZES = {'quick': 3000, 'thorough': 300000}
REQUIRED_EVENTS = ['roundtrips_ok', 'identical_empty']
RULE = ('pairs (base, target) of map-rooted, null-free, $-free trees; target is an edit script on base: keys added/removed/changed at any '
        'depth, list entries appended, removed, reordered, duplicated, inserted in the middle, changed in place, removed entries that are '
        'partial matches of kept ones, container kind changes in every direction (also from/to empty containers), scalars retyped with the same '
        'spelling; identical pairs; base, target and diff written in any mix of json/yaml/toml. The real bkld writes the layer, which is stored '
        'as base.diff.<ext>; the real bkl must accept it (exit 0) and its decoded output must equal target; for identical pairs the layer must '
        'be empty or only the {} selector. Variants: -o onto an existing longer file; the target stored as a two-layer file (t.ext + t.top.ext); the base '
        'named with another supported extension than the file on disk (layer format = the requested one). Non-trivial = base != target; distinct = distinct (base, target, formats).')
ASSUMPTIONS = ['own serializers validated against independent decoders; json output of bkl decoded with python json (int/float numerically)']

FMTS = ['json', 'yaml', 'toml']


def gen_case(rng, i, tier):
    labels = set()
    base = edits.base_tree(rng)
    if rng.random() < 0.06:
        target = clone(base)
        labels.add('identical')
    else:
        target = edits.edit(rng, base, labels)
        if veq(target, base):
            labels.add('identical')
    return {'base': base, 'target': target, 'fmts': [rng.choice(FMTS) for _ in range(3)], 'labels': sorted(labels)}


def fixed_cases(tier):
    P = [({'l': [1, 2]}, {'l': [2, 1]}), ({'l': [{'a': 1}, {'a': 1, 'b': 2}]}, {'l': [{'a': 1, 'b': 2}]}), ({'m': {'a': 1}}, {'m': 5}), ({'m': {'a': 1}}, {'m': [1]}),
         ({'m': [1]}, {'m': {'a': 1}}), ({'m': [1]}, {'m': 5}), ({'m': []}, {'m': 5}), ({'m': []}, {'m': {'a': 1}}), ({'m': {}}, {'m': 5}), ({'m': 5}, {'m': {}}),
         ({'m': 5}, {'m': []}), ({'l': [1, 1]}, {'l': [1]}), ({'l': [1]}, {'l': [1, 1]}), ({'l': [1, 2, 3]}, {'l': [1, 9, 2, 3]}), ({'a': 8080}, {'a': '8080'}),
         ({'a': True}, {'a': 'true'}), ({'a': '1.5'}, {'a': 1.5}), ({'a': {'b': {'c': [1]}}}, {'a': {'b': {'c': 5}}}), ({'l': [{'a': [1, 2]}]}, {'l': [{'a': [2, 1]}]}),
         ({'a': 1}, {'a': 1}), ({'a': 1, 'l': [1]}, {}), ({}, {'a': 1}), ({'x': {'y': 1}}, {'x': {}}), ({'x': [1]}, {'x': []})]
    out = []
    for b, t in P:
        for f in (['json', 'json', 'json'], ['yaml', 'yaml', 'yaml'], ['toml', 'toml', 'toml'], ['json', 'yaml', 'toml']):
            out.append({'base': b, 'target': t, 'fmts': f, 'labels': ['fixed'] + (['identical'] if veq(b, t) else [])})
    return out


def shrink(case):
    from ..shrink import shrink_tree
    for t in shrink_tree(case['target']):
        if isinstance(t, dict):
            yield dict(case, target=t)
    for t in shrink_tree(case['base']):
        if isinstance(t, dict):
            yield dict(case, base=t)
    if case['fmts'] != ['json', 'json', 'json']:
        yield dict(case, fmts=['json', 'json', 'json'])


def roundtrip(ctx, res, d, basefile, target, tfmt, dfmt, stem, what, detail, variant=None):
    """bkld basefile target -> <stem>.diff.<dfmt>; bkl on it must give target. Returns True if ok."""
    ctx.tgt_n = getattr(ctx, 'tgt_n', 0) + 1
    tf = 'tgt%d_%s.%s' % (ctx.tgt_n, stem, tfmt)     # one file per layer name: never reuse a stem with another extension
    keys = list(target.keys()) if isinstance(target, dict) else []
    if variant == 'layered-target' and len(keys) >= 2:
        # the target is itself a layered file (plain filename inheritance): what counts is what it evaluates to
        upper_keys = keys[len(keys) // 2:]
        lower = {k: v for k, v in target.items() if k not in upper_keys}
        upper = {k: target[k] for k in upper_keys}
        with open(os.path.join(d, tf), 'w') as f:
            f.write(ser.write(tfmt, [lower], style='quoted' if tfmt == 'yaml' else None))
        tf = 'tgt%d_%s.top.%s' % (ctx.tgt_n, stem, tfmt)
        with open(os.path.join(d, tf), 'w') as f:
            f.write(ser.write(tfmt, [upper], style='quoted' if tfmt == 'yaml' else None))
        res.labels.add('target:layered-file')
    else:
        with open(os.path.join(d, tf), 'w') as f:
            f.write(ser.write(tfmt, [target], style='quoted' if tfmt == 'yaml' else None))
    layer = '%s.diff.%s' % (stem, dfmt)
    via_o = ctx.tgt_n % 5 == 0 and variant != 'virtual-base-name'
    if variant == 'virtual-base-name':
        # the base is named with another supported extension than the file on disk has: the file is found by its stem and
        # the layer is written in the requested format (no -f, no -o)
        r = cli([ctx.bin('bkld'), '%s.%s' % (stem, dfmt), tf], cwd=d)
        res.labels.add('via:virtual-base-name')
    elif via_o:
        # -o <layer> (format from its extension); the file already exists and is longer than any layer
        if ctx.tgt_n % 10 == 0:
            # the output file holds an older, longer, valid layer: nothing of it may survive (also when the new layer is empty)
            stale = {'json': '{"stale_key": "left over"}' + ' ' * 3000 + '\n', 'toml': 'stale_key = "left over"\n' + '# pad\n' * 500,
                     'jsonl': '{"stale_key": "left over"}' + ' ' * 3000 + '\n', 'json-pretty': '{\n  "stale_key": "left over"\n}' + '\n' * 3000}.get(dfmt, 'stale_key: left over\n' + '# pad\n' * 500)
            with open(os.path.join(d, layer), 'w') as f:
                f.write(stale)
            res.labels.add('via:bkld-o-existing')
        r = cli([ctx.bin('bkld'), '-o', layer, basefile, tf], cwd=d)
        res.labels.add('via:bkld-o')
    else:
        r = cli([ctx.bin('bkld'), '-f', dfmt, basefile, tf], cwd=d)
    res.execs += 1
    if r.rc != 0:
        res.violate('roundtrip', 'bkld failed (%s): %s' % (what, r.err[-300:].decode('utf-8', 'replace')), **detail)
        return False
    if via_o:
        if not os.path.exists(os.path.join(d, layer)):
            res.violate('roundtrip', 'bkld -o did not create the output file (%s)' % what, **detail)
            return False
        r.out = open(os.path.join(d, layer), 'rb').read()
    else:
        with open(os.path.join(d, layer), 'wb') as f:
            f.write(r.out)
    r2 = cli([ctx.bin('bkl'), '-f', 'json', layer], cwd=d)
    res.execs += 1
    if r2.rc != 0:
        res.violate('roundtrip', 'bkl rejects the layer bkld emitted (%s): %s' % (what, r2.err[-300:].decode('utf-8', 'replace')), diff=r.out.decode('utf-8', 'replace'), **detail)
        return False
    try:
        got = ser.parse_json_stream(r2.out.decode())
    except Exception as e:
        res.violate('roundtrip', 'bkl output not JSON: %s' % e, **detail)
        return False
    if not veq(got, [target], loose=True):
        res.violate('roundtrip', 'base + bkld(base, target) does not evaluate to target (%s)' % what, diff=r.out.decode('utf-8', 'replace'), got=got, **detail)
        return False
    res.last_diff = r.out
    if r.out.strip() and not veq(detail.get('base'), target) and variant != 'layered-target':
        # second way of applying the layer: as a second input next to the base, inheritance switched off
        lname = 'applied%d.%s' % (ctx.tgt_n, dfmt)
        with open(os.path.join(d, lname), 'wb') as f:
            f.write(r.out)
        r3 = cli([ctx.bin('bkl'), '-P', '-f', 'json', basefile, lname], cwd=d)
        res.execs += 1
        if r3.rc != 0:
            res.violate('roundtrip', 'bkl -P base layer rejects the layer bkld emitted (%s): %s' % (what, r3.err[-300:].decode('utf-8', 'replace')), diff=r.out.decode('utf-8', 'replace'), **detail)
            return False
        try:
            got3 = ser.parse_json_stream(r3.out.decode())
        except Exception as e:
            res.violate('roundtrip', 'bkl -P output not JSON: %s' % e, **detail)
            return False
        if not veq(got3, [target], loose=True):
            res.violate('roundtrip', 'bkl -P base layer does not evaluate to target (%s)' % what, diff=r.out.decode('utf-8', 'replace'), got=got3, **detail)
            return False
        res.ev('applied_as_second_input')
    return True


def check_case(ctx, case):
    res = Result()
    res.labels.update(case.get('labels', []))
    base, target = case['base'], case['target']
    bf, tf, df = case['fmts']
    d = ctx.casedir()
    with open(os.path.join(d, 'base.' + bf), 'w') as f:
        f.write(ser.write(bf, [base], style='quoted' if bf == 'yaml' else None))
    res.labels.add('fmts:%s/%s/%s' % (bf, tf, df))
    variant = {3: 'layered-target', 5: 'virtual-base-name'}.get(case.get('i', 0) % 7)
    if variant == 'virtual-base-name' and df == bf:
        variant = None
    ok = roundtrip(ctx, res, d, 'base.' + bf, target, tf, df, 'base', 'base->target' + (' ' + variant if variant else ''),
                   {'base': base, 'target': target, 'fmts': case['fmts']}, variant)
    same = veq(base, target)
    res.nontrivial = not same
    if ok:
        res.ev('roundtrips_ok')
        if same:
            text = res.last_diff.decode()
            try:
                docs = [x for x in ser.parse(df, text) if x is not None] if text.strip() else []
            except Exception as e:
                docs = ['unparseable: %s' % e]
            if not all(isinstance(x, dict) and (x == {} or x == {'$match': {}}) for x in docs):
                res.violate('identical', 'base == target but the emitted layer is not empty', base=base, diff=text)
            else:
                res.ev('identical_empty')
    ctx.cleanup_case(d)
    return res
