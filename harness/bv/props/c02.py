"""C02 Stream layering targets the right documents and treats each independently
(reference stream model + hook event log + isolation re-run)."""
import json

from ..core import Result, out_bytes
from .. import gen, model
from ..val import veq, clone, drop_nulls, has_marker

ID = 'C02'
NEED_BINS = True
SIZES = {'quick': 10000, 'thorough': 1500000}
REQUIRED_EVENTS = ['layer_docs_agreed', 'selection_events_checked', 'isolation_reruns', 'file_streams_agreed', 'native_scalar_selections']
RULE = ('base streams of 1-4 documents, then 1-3 layers of 1-3 documents each; a layer document is derived by labelled edits from the model '
        'state of one of the documents it will hit, with or without document-level $match (one hit / many / none / {} / $invert / null=append), '
        'parents = the previous layer\'s documents (file-style) or a subset. Executed through successive MergeDocument calls with the hook '
        'event log on (a sample through multi-document files and the bkl binary). Monitors: (1) the merge/append events must be exactly the '
        'targets the stream model selects, in order; (2) Documents() after every layer must equal the model stream (ids, order, data) - the '
        'model is purely functional, i.e. every document is computed as if alone; (3) every final document is recomputed by the real merge in a '
        'fresh parser holding only that document. Non-trivial = a layer document hit >=2 targets or used $match; distinct = distinct histories.')
ASSUMPTIONS = ['merge/match model (harness/bv/model.py)', 'which error is returned and ids of appended documents are not judged beyond uniqueness']


class Stream:
    """Reference model of Parser.docs and the parent links."""

    def __init__(self):
        self.docs = []          # [id, data]
        self.links = {}         # any document id -> parent ids
        self.log = []           # selection log: ('merge', target, patch) / ('append', patch)

    def closure(self, pid):
        seen = set()
        todo = list(self.links.get(pid, []))
        while todo:
            x = todo.pop()
            if x in seen:
                continue
            seen.add(x)
            todo += self.links.get(x, [])
        return seen

    def apply(self, pid, parents, data, notes):
        """Returns list of (target id, patch body) actually merged. Raises model.Reject."""
        self.links.setdefault(pid, [])
        self.links[pid] += list(parents)
        body = data
        if isinstance(data, dict) and '$match' in data:
            m = data['$match']
            body = {k: v for k, v in data.items() if k != '$match'}
            if m is None:
                nid = pid + '|matchnull'
                self.docs.append([nid, clone(body)])
                self.links[nid] = []
                self.links[pid].append(nid)
                self.log.append(('merge', nid, pid))
                return [(nid, body)]
            anc = self.closure(pid)
            targets = [d for d in self.docs if d[0] in anc and model.match(d[1], m, notes)]
            if not targets:
                targets = [d for d in self.docs if model.match(d[1], m, notes)]
                if targets:
                    notes.r('select:$match-anywhere')
            else:
                notes.r('select:$match-parents')
            if not targets:
                notes.r('select:$match-none')
                raise model.Reject('$match matches no document')
        else:
            anc = self.closure(pid)
            targets = [d for d in self.docs if d[0] in anc]
            if not targets:
                self.docs.append([pid, clone(data)])
                self.log.append(('append', pid))
                notes.r('select:append')
                return []
            notes.r('select:parents')
        out = []
        for d in targets:
            d[1] = model.merge(d[1], body, notes)
            self.links[pid].append(d[0])
            self.log.append(('merge', d[0], pid))
            out.append((d[0], body))
        if len(targets) > 1:
            notes.r('select:multi-target')
        return out


def base_doc(rng, k):
    d = gen.tree(rng, 2, 3, nulls=False, root='map')
    d['name'] = 'n%d' % k
    d['kind'] = rng.choice(['a', 'b'])
    if rng.random() < 0.3:
        # a list of maps that document-level patterns can describe partially
        d['items'] = [{'id': x, 'v': j + k} for j, x in enumerate(rng.sample(['p', 'q', 'r', 's'], rng.randint(1, 3)))]
    return d


NATIVE = {'date': ['2024-01-15', '2024-01-16', '1999-12-31'], 'time': ['07:32:00', '07:32:01', '23:59:59.5'],
          'local-datetime': ['1979-05-27T07:32:00', '1979-05-27T07:32:01', '2001-02-03T04:05:06'],
          'datetime': ['1979-05-27T07:32:00Z', '1979-05-27T07:32:01Z', '1979-05-27T00:32:02-07:00']}


def gen_native(rng):
    """A TOML base stream whose documents carry native TOML scalars (dates, times), and a TOML layer that selects by one."""
    kind = rng.choice(sorted(NATIVE))
    pool = NATIVE[kind]
    nested = rng.random() < 0.3
    docs = [{'name': 'n%d' % k, 'when': rng.choice(pool), 'n': k} for k in range(rng.randint(1, 4))]
    return {'native': {'kind': kind, 'docs': docs, 'pattern': rng.choice(pool), 'invert': rng.random() < 0.25, 'nested': nested,
                       'with_name': rng.random() < 0.2}, 'labels': ['native:' + kind]}


def native_toml(doc, nested, extra=''):
    if nested:
        return 'name = "%s"\nn = %d\n%s\n[meta]\nwhen = %s\n' % (doc['name'], doc['n'], extra, doc['when'])
    return 'name = "%s"\nn = %d\nwhen = %s\n%s\n' % (doc['name'], doc['n'], doc['when'], extra)


def check_native(ctx, case, res):
    import os
    from ..core import cli, crashed
    from .. import ser
    nv = case['native']
    docs, pat, nested = nv['docs'], nv['pattern'], nv['nested']
    d = ctx.casedir()
    with open(os.path.join(d, 'a.toml'), 'w') as f:
        f.write('---\n'.join(native_toml(x, nested) for x in docs))
    lines = ['["$match"]']
    if nv['invert']:
        lines.append('"$invert" = true')
    if nv['with_name']:
        lines.append('name = "%s"' % docs[0]['name'])
    if nested:
        lines += ['["$match".meta]', 'when = %s' % pat]
    else:
        lines.append('when = %s' % pat)
    lines += ['', '[patch]', 'ok = true', 'at = %s' % pat, '']
    with open(os.path.join(d, 'a.l1.toml'), 'w') as f:
        f.write('\n'.join(lines))
    hit = [(x['when'] == pat and (not nv['with_name'] or x['name'] == docs[0]['name'])) != nv['invert'] for x in docs]
    res.nontrivial = True
    res.labels.add('native-targets:%d' % sum(hit))
    r = cli([ctx.bin('bkl'), '-f', 'toml', 'a.l1.toml'], cwd=d)
    res.execs += 1
    detail = {'base': open(os.path.join(d, 'a.toml')).read(), 'layer': '\n'.join(lines)}
    ctx.cleanup_case(d)
    if crashed(r.rc, r.err):
        return res.violate('crash', 'bkl died rc=%s: %s' % (r.rc, r.err[-300:].decode('utf-8', 'replace')), **detail)
    if not any(hit):
        if r.rc == 0:
            return res.violate('select', 'a $match on a native TOML value that no document carries was accepted', out=r.out.decode('utf-8', 'replace'), **detail)
        res.ev('native_scalar_selections')
        return res
    if r.rc != 0:
        return res.violate('select', 'a $match on a native TOML value carried by %d document(s) was rejected: %s' % (sum(hit), r.err[-300:].decode('utf-8', 'replace')), **detail)
    want_text = '---\n'.join(native_toml(x, nested, '[patch]\nok = true\nat = %s\n' % pat if h and nested else '') +
                             ('[patch]\nok = true\nat = %s\n' % pat if h and not nested else '') for x, h in zip(docs, hit))
    # nested: [patch] must come before [meta] in my text?  order of tables is irrelevant to the parser
    try:
        got = ser.parse('toml', r.out.decode())
        want = ser.parse('toml', want_text)
    except Exception as e:
        return res.violate('select', 'output is not TOML: %s' % e, out=r.out.decode('utf-8', 'replace'), **detail)
    if got != want:
        return res.violate('select', 'documents selected by a native TOML value are not exactly the ones carrying it', out=r.out.decode('utf-8', 'replace'),
                           expect=want_text, **detail)
    res.ev('native_scalar_selections')
    return res


def gen_fanout(rng):
    """A list-entry $match that selects several entries (each gets its own copy of the patch), then layers that edit inside one of them."""
    labels = {'fanout'}
    n = rng.randint(2, 4)
    groups = [rng.choice(['x', 'x', 'y']) for _ in range(n)]
    groups[0] = groups[1] = 'x'
    items = [{'n': 'i%d' % k, 'g': groups[k]} for k in range(n)]
    pre = rng.choice(['none', 'empty', 'filled'])
    for it in items:
        # the entries may already hold the containers the patch extends (then the patch's entries are appended, not copied in as a whole)
        if pre == 'empty':
            it.update({'lst': [], 'added': {}})
        elif pre == 'filled':
            it.update({'lst': [{'z': 0}], 'added': {'p': {'old': True}}})
    labels.add('fanout-pre:' + pre)
    steps = [{'id': 'b0', 'parents': [], 'data': {'name': 'n0', 'kind': 'a', 'items': items}}]
    patch = {'$match': {'g': 'x'}}
    patch.update(rng.choice([{'added': {'p': {'q': 1}}}, {'lst': [{'z': 1}, {'z': 2}]}, {'added': {'p': {'q': 1}}, 'lst': [{'z': 1}]}, {'added': {'$replace': True, 'r': {'s': 1}}},
                             {'lst': [{'z': 1, 'deep': {'d': [1]}}]}]))
    steps.append({'id': 'l0d0', 'parents': ['b0'], 'data': {'items': [patch]}})
    prev = 'l0d0'
    for li in range(1, rng.randint(2, 3)):
        who = rng.choice([k for k in range(n) if groups[k] == 'x'])
        ed = {'$match': {'n': 'i%d' % who}}
        if 'added' in patch and rng.random() < 0.7:
            ed['added'] = rng.choice([{'p': {'q': 10 + li}}, {'p': {'extra': li}}, {'r': {'s': 5, 't': li}}, {'new%d' % li: [li]}])
        if 'lst' in patch and (rng.random() < 0.7 or len(ed) == 1):
            ed['lst'] = rng.choice([[{'$match': {'z': 1}, 'w': li}], [{'z': 9}], [{'$delete': {'z': 1}}]])
        if len(ed) == 1:
            ed['touched'] = li
        steps.append({'id': 'l%dd0' % li, 'parents': [prev], 'data': {'items': [ed]}})
        prev = 'l%dd0' % li
    return {'steps': steps, 'labels': sorted(labels), 'files': rng.random() < 0.3}


def gen_case(rng, i, tier):
    if rng.random() < 0.03:
        return gen_native(rng)
    if rng.random() < 0.04:
        return gen_fanout(rng)
    labels = set()
    st = Stream()
    steps = []
    nb = rng.choice([1, 2, 2, 3, 4])
    prev = []
    null_at = rng.randrange(nb) if nb >= 2 and rng.random() < 0.06 else None
    for k in range(nb):
        d = base_doc(rng, k)
        if k == null_at:
            d = None            # an empty document in the base stream is a document like any other (it is a merge target, it keeps its place)
            labels.add('base:null-document')
        pid = 'b%d' % k
        steps.append({'id': pid, 'parents': [], 'data': d})
        st.apply(pid, [], d, model.Notes(null_policy='keep'))
        prev.append(pid)
    alive = True
    filestyle = rng.random() < 0.4
    for li in range(rng.choice([1, 2, 2, 3])):
        cur_ids = []
        for di in range(rng.choice([1, 1, 2, 3])):
            if not alive:
                break
            pid = 'l%dd%d' % (li, di)
            parents = list(prev) if (filestyle or rng.random() < 0.8) else rng.sample(prev, rng.randint(1, len(prev)))
            st.links[pid] = list(parents)
            anc = st.closure(pid)
            cands = [d for d in st.docs if d[0] in anc] or st.docs
            tgt = rng.choice([c for c in cands if isinstance(c[1], dict)] or [['-', {'name': 'n0', 'kind': 'a'}]])
            r = rng.random()
            if r < 0.45 or len(cands) == 1:
                body = gen.child_of(rng, tgt[1], labels, 0, rng.choice([0.0, 0.0, 0.1]))
            else:
                # something every target accepts: fresh keys / appended entries, with the constructs that expose sharing
                body = {}
                allkeys = set(k for d in cands if isinstance(d[1], dict) for k in d[1].keys())
                for key in [k for k in gen.KEYS + ['f', 'g'] if k not in allkeys][:rng.randint(1, 2)]:
                    body[key] = rng.choice([{'x': 1}, {'x': {'y': 1}}, [{'p': 1}], [1, 2], 'v', {'$replace': True, 'z': 1}])
                labels.add('edit:fresh-for-all')
            if not isinstance(body, dict):
                body = {'zz': body}
            body.pop('$match', None)
            r = rng.random()
            if r < 0.2:
                body['$match'] = {'name': tgt[1].get('name', 'n0')}
                labels.add('match:name')
            elif r < 0.32:
                body['$match'] = {'kind': tgt[1].get('kind', 'a')}
                labels.add('match:kind')
            elif r < 0.37:
                body['$match'] = {'kind': 'zzz'}
                labels.add('match:none')
            elif r < 0.42 and isinstance(tgt[1].get('items'), list) and tgt[1]['items'] and all(isinstance(x, dict) and 'id' in x for x in tgt[1]['items']):
                # a pattern holding a list of partial maps: every pattern entry must be matched by some entry of the document's list
                e = tgt[1]['items'][-1]
                body['$match'] = {'items': rng.choice([[{'id': e['id']}], [{'id': e['id'], 'v': e.get('v')}], [{'id': 'nosuch'}], [{'v': e.get('v')}, {'id': tgt[1]['items'][0].get('id')}]])}
                labels.add('match:list-of-partial-maps')
            elif r < 0.43:
                body['$match'] = {}
                labels.add('match:all')
            elif r < 0.48:
                body['$match'] = {'kind': tgt[1].get('kind', 'a'), '$invert': True}
                labels.add('match:invert')
            elif r < 0.56:
                body['$match'] = None
                body.setdefault('name', 'new%d%d' % (li, di))
                labels.add('match:null')
            steps.append({'id': pid, 'parents': parents, 'data': body})
            del st.links[pid]
            try:
                st.apply(pid, parents, body, model.Notes(null_policy='keep'))
            except model.Reject:
                alive = False
            cur_ids.append(pid)
        if not alive or not cur_ids:
            break
        prev = cur_ids
    return {'steps': steps, 'labels': sorted(labels), 'files': filestyle or (i % 13 == 0)}


def fixed_cases(tier):
    B = [{'id': 'b0', 'parents': [], 'data': {'a': 1, 'name': 'n0'}}, {'id': 'b1', 'parents': [], 'data': {'a': 2, 'name': 'n1'}}]
    out = []
    seqs = [
        [{'a': {'x': 1}}, {'a': {'y': 2}}],
        [{'$replace': True, 'c': 3}],
        [{'l': [{'p': 1}]}, {'l': [{'$match': {'p': 1}, 'q': 2}]}],
        [{'m': {'$replace': True, 'z': 1}}, {'m': {'z': 2}}],
        [{'$match': None, 'name': 'n2', 'a': 3}, {'b': 1}],
        [{'$match': None, 'name': 'n2', 'a': 3}, {'$match': {}, 'b': 1}],
        [{'$match': {'name': 'n1'}, 'a': 5}, {'c': 1}],
        [{'$match': {'name': 'zz'}, 'a': 5}],
    ]
    for sq in seqs:
        steps = [dict(s, data=clone(s['data'])) for s in B]
        prev = ['b0', 'b1']
        for i, body in enumerate(sq):
            steps.append({'id': 'x%d' % i, 'parents': list(prev), 'data': body})
            prev = ['x%d' % i]
        out.append({'steps': steps, 'labels': ['fixed'], 'files': True})
    return out


def shrink(case):
    if 'native' in case:
        return
    yield from _shrink(case)


def _shrink(case):
    steps = case['steps']
    for i in range(len(steps) - 1, 0, -1):
        rid = steps[i]['id']
        s2 = [dict(s, parents=[p for p in s['parents'] if p != rid] or (steps[i]['parents'] if rid in s['parents'] else s['parents'])) for s in steps[:i] + steps[i + 1:]]
        yield dict(case, steps=s2, files=False)
    from ..shrink import shrink_tree
    for i in range(len(steps) - 1, -1, -1):
        for t in shrink_tree(steps[i]['data']):
            if isinstance(t, dict):
                yield dict(case, steps=steps[:i] + [dict(steps[i], data=t)] + steps[i + 1:], files=False)


def check_case(ctx, case):
    res = Result()
    res.labels.update(case.get('labels', []))
    if 'native' in case:
        return check_native(ctx, case, res)
    steps = case['steps']
    ops = []
    for s in steps:
        ops.append({'op': 'merge_doc', 'id': s['id'], 'parents': s['parents'], 'data': s['data']})
        ops.append({'op': 'documents'})
    ops.append({'op': 'output', 'format': 'json'})
    resp = ctx.call(ops, res, events=True)
    if resp is None:
        return res.violate('crash', 'worker died', steps=steps)
    rs = resp['results']
    for r in rs:
        if r.get('panic'):
            return res.violate('crash', 'panic: ' + r['panic'][:300], steps=steps)
    st = Stream()
    idmap = {}
    assigned = {}       # target id -> [patch bodies] in order
    base = {}
    nontrivial = False
    ended = None
    for i, s in enumerate(steps):
        mr, dr = rs[2 * i], rs[2 * i + 1]
        notes = model.Notes()
        try:
            hit = st.apply(s['id'], s['parents'], s['data'], notes)
            rej = None
        except model.Reject as e:
            rej = e.why
        res.labels.update('rule:' + r for r in notes.rules if r.startswith('select:'))
        if notes.unspec:
            res.skip(notes.unspec[0])
            return res
        if rej is not None:
            if mr['err'] is None:
                return res.violate('select', 'layer document %s accepted; the rules reject it: %s' % (s['id'], rej), steps=steps, step=i)
            res.labels.add('outcome:rejected')
            res.ev('rejections_agreed')
            ended = i
            nontrivial = nontrivial or '$match' in s['data']
            break
        if mr['err'] is not None:
            if notes.either:
                ended = i
                break
            return res.violate('isolate', 'layer document %s rejected (%s) although every selected document accepts it on its own' % (s['id'], mr['err']),
                               steps=steps, step=i, model_docs=st.docs)
        real = [(d['id'], d['data']) for d in dr['docs']]
        want = [(d[0], d[1]) for d in st.docs]
        # ids of documents appended for $match: null are chosen by the implementation: not judged beyond position and uniqueness
        def same_ids(ra, wa):
            if len(ra) != len(wa) or len(set(ra)) != len(ra):
                return False
            return all(r == w or w.endswith('|matchnull') for r, w in zip(ra, wa))
        if not same_ids([x[0] for x in real], [x[0] for x in want]):
            return res.violate('select', 'document list/order after %s is %s, the rules give %s' % (s['id'], [x[0] for x in real], [x[0] for x in want]), steps=steps, step=i)
        for (rid, _), (wid, _) in zip(real, want):
            if wid.endswith('|matchnull'):
                idmap[wid] = rid
        for (rid, rdata), (wid, wdata) in zip(real, want):
            if not veq(rdata, wdata):
                return res.violate('isolate', 'document %s after layer document %s differs from what it gets on its own' % (rid, s['id']),
                                   steps=steps, step=i, expect=wdata, got=rdata)
        res.ev('layer_docs_agreed')
        if len(hit) > 1 or (isinstance(s['data'], dict) and '$match' in s['data']):
            nontrivial = True
        for tid, body in hit:
            assigned.setdefault(tid, []).append(body)
        if not hit and not s['parents'] or not hit:
            base.setdefault(s['id'], s['data'])
        if hit and hit[0][0].endswith('|matchnull'):
            base.setdefault(hit[0][0], None)
    # (1) selection events
    if ended is None:
        evs = [tuple(e.split('\t')) for e in resp.get('events', [])]
        got_log = [('merge', e[1], e[2]) if e[0] == 'merge' else ('append', e[1]) for e in evs if e[0] in ('merge', 'append')]
        want_log = [tuple(idmap.get(x, x) for x in e) for e in st.log]
        if got_log != want_log:
            return res.violate('select', 'merge/append events differ from the selection rules', steps=steps, events=got_log, expect=want_log)
        res.ev('selection_events_checked', len(got_log))
        # (3) isolation re-run with the real merge, one fresh parser per final document
        ops2 = []
        ids = []
        for pi, (did, _) in enumerate(st.docs):
            if did.endswith('|matchnull'):
                seq = assigned.get(did, [])
                first, rest = (seq[0], seq[1:]) if seq else ({}, [])
            else:
                first = next(s['data'] for s in steps if s['id'] == did)
                rest = assigned.get(did, [])
            ops2.append({'op': 'merge_doc', 'id': 'solo', 'parents': [], 'data': first, 'parser': pi})
            for k, body in enumerate(rest):
                ops2.append({'op': 'merge_doc', 'id': 'p%d' % k, 'parents': ['solo' if k == 0 else 'p%d' % (k - 1)], 'data': body, 'parser': pi})
            ops2.append({'op': 'documents', 'parser': pi})
            ids.append(did)
        resp2 = ctx.call(ops2, res)
        if resp2 is None:
            return res.violate('crash', 'worker died in the isolation re-run', steps=steps)
        solo = [r for r, o in zip(resp2['results'], ops2) if o['op'] == 'documents']
        final = rs[2 * (len(steps) - 1) + 1]['docs']
        for did, r, f in zip(ids, solo, final):
            if any(x['err'] for x, o in zip(resp2['results'], ops2) if o.get('parser') == ids.index(did) and o['op'] == 'merge_doc'):
                return res.violate('isolate', 'document %s alone rejects a layer that the full stream accepted' % did, steps=steps)
            if len(r['docs']) != 1 or not veq(r['docs'][0]['data'], f['data']):
                return res.violate('isolate', 'document %s in the stream differs from the same document layered alone' % did, steps=steps,
                                   alone=r['docs'], in_stream=f['data'])
        res.ev('isolation_reruns', len(ids))
        # output of the whole stream = outputs of the documents, in order
        o = rs[-1]
        exp = [drop_nulls(d[1]) for d in st.docs]
        raw_marked = any(has_marker(d[1]) for d in st.docs)        # incl. directive keys with a null value: whether those count is not stated
        if not raw_marked and not any('$output' in json.dumps(x) for x in exp):
            if o['err'] is not None:
                return res.violate('isolate', 'stream output failed: %s' % o['err'], steps=steps)
            got = [json.loads(l) for l in out_bytes(o).decode().splitlines() if l.strip()]
            exp = [x for x in exp if x is not None]         # a document that is (still) empty produces no output document
            if not veq(got, exp, loose=True):
                return res.violate('isolate', 'stream output differs from the per-document results', steps=steps, expect=exp, got=got)
            res.ev('stream_outputs_agreed')
        if case.get('files'):
            files_check(ctx, case, res, st)
    res.nontrivial = nontrivial
    return res


def files_check(ctx, case, res, st):
    """File-style histories (each layer's parents = all documents of the previous layer) as a.yaml / a.l1.yaml ... through the binary."""
    import os
    from ..core import cli
    from .. import ser
    steps = case['steps']
    layers = []
    cur = []
    for s in steps:
        if not s['parents']:
            if layers and len(layers) > 1:
                return
            cur.append(s)
            if not layers:
                layers.append(cur)
        else:
            want_par = [x['id'] for x in layers[-1]] if layers[-1] is not cur else None
            if layers[-1] and s['parents'] == [x['id'] for x in layers[-1]] and all(not x['parents'] or x['parents'] != s['parents'] for x in layers[-1]):
                cur = [s]
                layers.append(cur)
            elif layers[-1] and layers[-1][0]['parents'] == s['parents']:
                layers[-1].append(s)
            else:
                return
    exp = [drop_nulls(d[1]) for d in st.docs]
    judge_output = not any(has_marker(x[1]) or '$output' in json.dumps(x[1]) for x in st.docs)
    d = ctx.casedir()
    name = 'a'
    top = None
    import random
    for i, layer in enumerate(layers):
        if i:
            name += '.l%d' % i
        frng = random.Random(json.dumps([s['data'] for s in layer], sort_keys=True) + str(i))
        docs_ = [s['data'] for s in layer]
        fmt = frng.choice(['yaml', 'json', 'yml', 'toml'])
        if fmt == 'toml' and not all(ser.toml_ok(x) for x in docs_):
            fmt = 'yaml'
        top = '%s.%s' % (name, fmt)
        with open(os.path.join(d, top), 'w') as f:
            f.write(ser.write(fmt, docs_, frng))
    res.labels.add('via:files')
    # library: MergeFileLayers, then Documents() against the stream model (data and order; ids are file-derived)
    resp = ctx.call([{'op': 'merge_layers', 'path': os.path.join(d, top)}, {'op': 'documents'}, {'op': 'output', 'format': 'json'}], res)
    if resp is None:
        ctx.cleanup_case(d)
        res.violate('crash', 'worker died on layer files', steps=steps)
        return
    m, dr, o = resp['results']
    if m['err'] is not None:
        res.violate('files', 'MergeFileLayers failed on a stream the MergeDocument calls accepted: %s' % m['err'], steps=steps)
    elif not veq([x['data'] for x in dr['docs']], [x[1] for x in st.docs]):
        res.violate('files', 'documents after MergeFileLayers differ from the stream model (same layers through MergeDocument agree with it)', steps=steps,
                    expect=[x[1] for x in st.docs], got=[x['data'] for x in dr['docs']])
    else:
        res.ev('file_streams_agreed')
        if judge_output and case.get('i', 0) % 5 == 0:
            r = cli([ctx.bin('bkl'), '-f', 'json', top], cwd=d)
            res.execs += 1
            if r.rc != 0 or (o['err'] is None and r.out != out_bytes(o)):
                res.violate('files', 'bkl binary differs from the library on the same layer files (rc=%s)' % r.rc, steps=steps, stdout=r.out.decode('utf-8', 'replace'), stderr=r.err.decode('utf-8', 'replace')[-200:])
            else:
                res.ev('files_agreed')
    ctx.cleanup_case(d)
