"""C01 Layer merge follows the documented merge rules (reference-model monitor)."""
from ..core import crashed, Result, out_bytes
from .. import gen, model
from ..val import veq, clone, drop_nulls, has_marker, strings_of, show, foreign_types
import json

ID = 'C01'
NEED_BINS = True
SIZES = {'quick': 30000, 'thorough': 4000000}
REQUIRED_EVENTS = ['merges_agreed', 'rejections_agreed', 'outputs_agreed']
RULE = ('chains of 2-4 single-document layers; every child is derived from the model-merged result so far by labelled '
        'edits (override same/different scalar, add key, $delete present/absent, $replace:true, list append, list $delete '
        'full/partial/missing, list $match body/$value one/many/no hit, $invert, kind changes, misplaced directives, extra '
        'keys). Executed through successive MergeDocument calls with explicit parents; Documents() compared with the '
        'reference merge after every layer, Output(json) at the end; a sub-sample also runs as layer files through the '
        'bkl binary. Non-trivial = at least one child layer was judged (accepted with equal tree, or rejected as the '
        'model demands); distinct = distinct layer lists.')
ASSUMPTIONS = ['reference merge model in harness/bv/model.py states the documented rules',
               'regions the statement leaves open are skipped (labels skipped:*), see DESIGN.md C01 "not judged"']


def fold1(cur, ch):
    try:
        return model.merge(cur, ch, model.Notes())
    except model.Reject:
        return None


def gen_case(rng, i, tier):
    labels = set()
    n = rng.choice([2, 2, 3, 3, 4])
    root = rng.choice(['map', 'map', 'map', 'list'])
    layers = gen.chain(rng, n, labels, root=root, nulls=True, hostile=rng.choice([0.0, 0.1, 0.25]), fold=fold1)
    return {'layers': layers, 'labels': sorted(labels), 'cli': (i % 41 == 0)}


def _comps(n):
    if n == 0:
        return [[]]
    out = []
    for f in range(1, n + 1):
        for rest in _comps(n - f):
            out.append([f] + rest)
    return out


def _trees(n, scalars, keys):
    """All trees with exactly n nodes over the given leaves and keys."""
    import itertools
    if n == 1:
        return list(scalars) + [{}, []]
    out = []
    for parts in _comps(n - 1):
        kids_list = list(itertools.product(*[_trees(p, scalars, keys) for p in parts]))
        if len(parts) <= len(keys):
            for ks in itertools.combinations(keys, len(parts)):
                for kids in kids_list:
                    out.append(dict(zip(ks, kids)))
        for kids in kids_list:
            out.append(list(kids))
    return out


_SWEEP = {}


def sweep(tier):
    """Small-scope sweep: every parent tree with <= 3 nodes x every child tree with <= 3 nodes (leaves include
    $delete and the list directive entries). quick takes every third pair, thorough all of them."""
    if tier in _SWEEP:
        return _SWEEP[tier]
    ents = [{'$delete': 1}, {'$delete': 'x'}, {'$match': 1, '$value': 2}, {'$match': 'x', '$value': 1}, {'$replace': True}, {'$match': {}, 'a': 2}, {'$delete': {}}, {'$match': 1, '$value': 1}]
    P = [t for n in (1, 2, 3) for t in _trees(n, [1, 'x', None], ['a', 'b'])]
    C = [t for n in (1, 2, 3) for t in _trees(n, [1, 2, 'x', '$delete', None] + ents, ['a', 'b'])]
    out = []
    k = 0
    for p in P:
        for c in C:
            k += 1
            if tier == 'quick' and k % 4:
                continue
            out.append({'layers': [clone(p), clone(c)], 'labels': ['sweep'], 'cli': False})
    _SWEEP[tier] = out
    return out


def fixed_cases(tier):
    return _fixed(tier) + sweep(tier)


def _fixed(tier):
    P = {'a': 1, 'm': {'x': 1, 'y': [1, 2]}, 'l': [{'n': 1, 'v': 1}, {'n': 2, 'v': 1}, 3], 'e': {}, 'z': None}
    kids = [
        {'a': 1}, {'a': 2}, {'a': 1.0}, {'m': {'x': '$delete'}}, {'q': '$delete'}, {'z': '$delete'}, {'m': 5}, {'m': [1]}, {'e': 5}, {'e': [1]},
        {'l': 5}, {'l': {'a': 1}}, {'l': [4]}, {'l': [{'$delete': {'v': 1}}]}, {'l': [{'$delete': {'n': 1}}]}, {'l': [{'$delete': {'n': 9}}]},
        {'l': [{'$delete': 3}]}, {'l': [{'$match': {'v': 1}, 'w': 2}]}, {'l': [{'$match': {'n': 2}, '$value': 9}]},
        {'l': [{'$match': {'n': 9}, '$value': 9}]}, {'l': [{'$match': {'n': 9}, 'w': 1}]}, {'l': [{'$match': {'n': 1}, '$value': 9, 'q': 1}]},
        {'l': [{'$delete': 3, 'q': 1}]}, {'l': [{'$replace': True}, 7]}, {'l': [{'$replace': True, 'q': 1}, 7]}, {'m': {'$replace': True, 'k': 1}},
        {'l': [{'$match': {'n': 1, '$invert': True}, 'w': 2}]}, {'m': {'y': [3]}}, {'m': {'y': [{'$delete': 1}]}}, {'z': 4}, {'z': {'k': 1}},
        {'new': {'$replace': True, 'k': 1}}, {'new': [{'$delete': 1}]}, {'m': {'$match': {}}}, {'l': [{'$match': {'v': 1}, 'v': 1}]},
        {'l': [{'$match': 3, '$value': 4}]}, {'l': [{'$match': 3, '$value': 3}]},
    ]
    out = [{'layers': [clone(P), k], 'labels': ['fixed'], 'cli': True} for k in kids]
    out.append({'layers': [{'r': ['$required'], 's': '$required'}, {'r': [1], 's': 2}], 'labels': ['fixed'], 'cli': True})
    out.append({'layers': [{'r': ['$required'], 's': '$required'}, {'r': [1]}], 'labels': ['fixed'], 'cli': True})
    return out


def shrink(case):
    layers = case['layers']
    if len(layers) > 2:
        yield dict(case, layers=layers[:-1])
    from ..shrink import shrink_tree
    for li in range(len(layers) - 1, -1, -1):
        for t in shrink_tree(layers[li]):
            l2 = list(layers)
            l2[li] = t
            yield dict(case, layers=l2)


def check_case(ctx, case):
    res = Result()
    res.labels.update(case.get('labels', []))
    layers = case['layers']
    ops = []
    for i, l in enumerate(layers):
        ops.append({'op': 'merge_doc', 'id': 'L%d' % i, 'parents': ['L%d' % (i - 1)] if i else [], 'data': l})
        ops.append({'op': 'documents'})
    ops.append({'op': 'output', 'format': 'json'})
    if any(isinstance(l, dict) and '$match' in l for l in layers[1:]):
        return res.skip('document-level $match (C02)')
    resp = ctx.call(ops, res)
    if resp is None:
        return res.violate('crash', 'worker died while merging layers', layers=layers)
    rs = resp['results']
    cur = clone(layers[0])
    judged = 0
    rejected = False
    for i in range(len(layers)):
        mr, dr = rs[2 * i], rs[2 * i + 1]
        if mr.get('panic'):
            return res.violate('crash', 'panic in MergeDocument: ' + mr['panic'][:300], layer=i)
        if i == 0:
            if mr['err'] is not None:
                return res.violate('model', 'base layer rejected: %s' % mr['err'])
            continue
        pols = model.null_policies()
        notes = model.Notes(null_policy=pols[0])
        try:
            expect = model.merge(cur, layers[i], notes)
            rej = None
        except model.Reject as e:
            expect, rej = None, e.why
        if notes.null_used and not notes.unspec:
            # the statement is silent on a null child over an existing value: accept any
            # reading (parent value kept / replaced by null), whichever the code follows
            res.labels.add('null-child:any-reading')
            got = dr['docs'][0]['data'] if dr.get('docs') and len(dr['docs']) == 1 else None
            for pol in pols:
                n2 = model.Notes(null_policy=pol)
                try:
                    expect2, rej2 = model.merge(cur, layers[i], n2), None
                except model.Reject as e:
                    expect2, rej2 = None, e.why
                if (rej2 is not None and mr['err'] is not None) or (rej2 is None and mr['err'] is None and veq(got, expect2)):
                    notes, expect, rej = n2, expect2, rej2
                    break
        res.labels.update('rule:' + r for r in notes.rules)
        if notes.unspec:
            res.skip(notes.unspec[0])
            res.labels.add('layer%d:unspecified' % i)
            return done(res, judged)
        real_err = mr['err']
        if rej is not None:
            if real_err is None:
                return res.violate('model', 'layer %d silently accepted; the rules reject it: %s' % (i, rej),
                                   layers=layers, parent=cur, child=layers[i], got=dr['docs'])
            res.labels.add('outcome:rejected')
            res.ev('rejections_agreed')
            judged += 1
            rejected = True
            break
        if real_err is not None:
            if notes.either:
                res.labels.add('outcome:either-rejected')
                return done(res, judged)
            return res.violate('model', 'layer %d rejected (%s); the rules accept it' % (i, real_err),
                               layers=layers, parent=cur, child=layers[i], expect=expect)
        docs = dr['docs']
        if len(docs) != 1:
            return res.violate('model', 'expected one document, got %d' % len(docs), layers=layers)
        ft = foreign_types(docs[0]['data'])
        if ft:
            return res.violate('model', 'merged tree holds Go types %s' % ft, layers=layers)
        if not veq(docs[0]['data'], expect):
            return res.violate('model', 'layer %d merged tree differs from the documented merge' % i,
                               layers=layers, parent=cur, child=layers[i], expect=expect, got=docs[0]['data'])
        res.labels.add('outcome:accepted')
        res.ev('merges_agreed')
        judged += 1
        cur = expect
    if not rejected:
        o = rs[-1]
        if o.get('panic'):
            return res.violate('crash', 'panic in Output: ' + o['panic'][:300], layers=layers)
        final = drop_nulls(cur)
        if any(s == '$value' or s.startswith('$merge') or s.startswith('$replace:') for s in strings_of(cur)):
            res.labels.add('output:not-judged-eval-directive')
        elif has_marker(cur) and not has_marker(final):
            res.labels.add('output:not-judged-null-valued-directive-key')
        elif has_marker(final):
            if o['err'] is None:
                return res.violate('leftover', 'an unapplied directive survived into a successful output',
                                   layers=layers, merged=cur, out=o.get('out'))
            res.labels.add('output:leftover-rejected')
            res.ev('leftover_rejected')
        else:
            if o['err'] is not None:
                return res.violate('output', 'output failed (%s) for a directive-free merged tree' % o['err'], layers=layers, merged=cur)
            try:
                got = [json.loads(l) for l in out_bytes(o).decode().splitlines() if l.strip()]
            except Exception as e:
                return res.violate('output', 'output is not JSON: %s' % e, layers=layers)
            want = [final] if final is not None else []
            if not veq(got, want, loose=True):
                return res.violate('output', 'evaluated output differs from the merged tree', layers=layers, expect=want, got=got)
            res.labels.add('output:equal')
            res.ev('outputs_agreed')
        if case.get('cli') and judged:
            cli_check(ctx, case, res, cur, final)
    return done(res, judged)


def done(res, judged):
    res.nontrivial = judged > 0
    return res


def cli_check(ctx, case, res, cur, final):
    """Same chain as layer files a.json, a.b.json, ... through the real binary."""
    import os
    from ..core import cli
    import random
    from .. import ser
    rng = random.Random(json.dumps(case['layers'], sort_keys=True))
    d = ctx.casedir()
    name = 'a'
    ext = 'json'
    for i, l in enumerate(case['layers']):
        if i:
            name += '.l%d' % i
        ext = rng.choice(['json', 'yaml', 'yml', 'toml'])
        if ext == 'toml' and not ser.toml_ok(l):
            ext = 'yaml'
        if ext in ('yaml', 'yml') and not isinstance(l, (dict, list)):
            ext = 'json'
        with open(os.path.join(d, name + '.' + ext), 'w') as f:
            f.write(ser.write(ext, [l], rng))
    r = cli([ctx.bin('bkl'), '-f', 'json', name + '.' + ext], cwd=d)
    res.execs += 1
    res.labels.add('via:cli')
    bad = has_marker(final) or any(s == '$value' or s.startswith('$merge') or s.startswith('$replace:') for s in strings_of(cur))
    if crashed(r.rc, r.err):
        res.violate('crash', 'bkl binary crashed or hung rc=%s: %s' % (r.rc, r.err[-300:]), layers=case['layers'])
    elif not bad:
        if r.rc != 0:
            res.violate('cli', 'bkl binary failed (%s) where the library succeeded' % r.err[-200:].decode('utf-8', 'replace'), layers=case['layers'])
        else:
            got = [json.loads(l) for l in r.out.decode().splitlines() if l.strip()]
            want = [final] if final is not None else []
            if not veq(got, want, loose=True):
                res.violate('cli', 'bkl binary output differs from the documented merge', layers=case['layers'], expect=want, got=got)
            else:
                res.ev('cli_agreed')
    ctx.cleanup_case(d)
