"""C17 bklr keeps exactly the $required skeleton and agrees with bkl on what is missing (process-boundary reference-model monitor)."""
import itertools
import json
import os
import random

from ..core import Result, out_bytes, cli
from .. import gen, model, ser
from ..val import veq, clone, walk, strings_of, drop_nulls

ID = 'C17'
SIZES = {'quick': 2500, 'thorough': 300000}
REQUIRED_EVENTS = ['skeleton_agreed', 'idempotent', 'bkl_agreed']
RULE = ('single-document layer chains (1-3 layers, files in mixed formats) over random trees with $required at random map values and list '
        'entries (also lists nested in lists), some satisfied by upper layers through edit-based children; fixed part: all subsets of leaf '
        'positions of four small shapes. bklr (real binary) output must equal model.skeleton(model.fold(layers)), be empty iff there is no '
        'marker, and be a fixed point of bklr; bkl (library: errors.Is ErrRequiredField; binary: status) must refuse exactly when the skeleton '
        'is non-empty. Non-trivial = at least one $required placed; distinct = distinct layer lists.')
ASSUMPTIONS = ['merge model and skeleton model in harness/bv/model.py', 'independent YAML/JSON decoders (PyYAML core schema, json)']

SHAPES = [
    {'a': 0, 'b': {'c': 0, 'd': [0, 0]}, 'e': [0]},
    {'l': [[0, 0], [0], {'x': 0}], 'm': {'n': {'o': 0}}},
    [{'a': 0, 'b': [0]}, [0, [0]], 0],
    {'a': [0, {'b': 0, 'c': [0, 0]}]},
]


def leaves(t):
    return [p for p, n in walk(t) if not isinstance(n, (dict, list))]


def setp(t, p, v):
    n = t
    for k in p[:-1]:
        n = n[k]
    n[p[-1]] = v


_FIXED = None


def fixed_cases(tier):
    global _FIXED
    if _FIXED is not None:
        return _FIXED
    out = []
    for sh in SHAPES:
        ls = leaves(sh)
        for mask in range(1 << len(ls)):
            t = clone(sh)
            c = 0
            for i, p in enumerate(ls):
                c += 1
                setp(t, p, '$required' if mask >> i & 1 else c)
            out.append({'layers': [t], 'fmts': ['json'], 'labels': ['sweep']})
    for ls in ([{'$$price': '$required', 'm': {'$$cost': {'deep': ['$required']}}}], [{'$$price': '$required'}, {'$$price': 5}],
               [{'ports': ['$required', '$required']}, {'ports': [80]}], [{'ports': ['$required', '$required', 1]}, {'other': 1}], [['$required', {'a': '$required'}]],
               [{'l': ['alpha']}, {'l': ['$required', 'beta']}], [{'l': ['$required']}, {'l': ['$required']}, {'z': 1}], [[['$required']], [1]]):
        out.append({'layers': ls, 'fmts': ['yaml'] * len(ls), 'labels': ['fixed']})
    _FIXED = out
    return out


def place(rng, t, n):
    conts = [(p, x) for p, x in walk(t) if isinstance(x, (dict, list))]
    k = 0
    for _ in range(n):
        p, c = rng.choice(conts)
        if isinstance(c, dict):
            key = rng.choice(gen.KEYS + ['$$price', '$$', 'x$$y'])
            c[key] = '$required' if rng.random() < 0.75 else ['$required']
        else:
            c.insert(rng.randint(0, len(c)), '$required' if rng.random() < 0.8 else ['$required'])
        k += 1
    return k


def gen_case(rng, i, tier):
    labels = set()
    base = gen.tree(rng, 3, 3, nulls=False, root=rng.choice(['map', 'map', 'list']))
    n = place(rng, base, rng.choice([0, 1, 1, 2, 3, 4]))
    labels.add('placed:%d' % n)
    layers = [base]
    cur = base
    for _ in range(rng.choice([0, 1, 1, 2])):
        for attempt in range(4):
            ch = gen.child_of(rng, cur, labels, 0, 0.0)
            if rng.random() < 0.2 and isinstance(ch, dict):
                place(rng, ch, 1)
                labels.add('placed-in-upper')
            if rng.random() < 0.12 and isinstance(ch, dict) and isinstance(cur, dict) and cur:
                ch[rng.choice(list(cur.keys()))] = None
                labels.add('null-in-upper')
            try:
                nxt = model.merge(cur, ch, model.Notes(null_policy=model.null_policies()[0]))
            except model.Reject:
                if attempt < 3 and rng.random() < 0.9:
                    continue        # mostly keep chains the merge rules accept (a rejected chain has no skeleton to judge)
                layers.append(ch)
                nxt = None
                break
            layers.append(ch)
            break
        if nxt is None:
            break
        cur = nxt
    fmts = [rng.choice(['json', 'yaml', 'yaml', 'toml']) for _ in layers]
    return {'layers': layers, 'fmts': fmts, 'labels': sorted(labels)}


def shrink(case):
    from ..shrink import shrink_tree
    layers = case['layers']
    if len(layers) > 1:
        yield dict(case, layers=layers[:-1], fmts=case['fmts'][:-1])
    for li in range(len(layers) - 1, -1, -1):
        for t in shrink_tree(layers[li]):
            if isinstance(t, (dict, list)) and (li == 0 or type(t) is type(layers[li])):
                l2 = list(layers)
                l2[li] = t
                yield dict(case, layers=l2)


def decode_out(fmt, data):
    text = data.decode()
    if fmt == 'json':
        docs = ser.parse_json_stream(text)
        return [d for d in docs if d is not None]
    docs = ser.parse_yaml_stream(text) if text.strip() else []
    return [d for d in docs if d is not None]


def check_case(ctx, case):
    res = Result()
    res.labels.update(case.get('labels', []))
    layers = case['layers']
    if any(isinstance(l, dict) and '$match' in l for l in layers):
        return res.skip('document-level $match')
    pols = model.null_policies()
    notes = model.Notes(null_policy=pols[0])
    try:
        merged = model.fold(layers, notes)
    except model.Reject:
        return res.skip('chain rejected by the merge rules')
    if notes.unspec:
        return res.skip(notes.unspec[0])
    alt_wants = None
    if notes.null_used:
        # a null child over an existing value: every reading of the statement is accepted, nothing else
        alt_wants = []
        for pol in pols:
            try:
                alt_wants.append(model.skeleton(model.fold(layers, model.Notes(null_policy=pol))))
            except model.Reject:
                pass
        res.labels.add('null-child:any-reading')
    fmts = list(case['fmts'])
    for i, l in enumerate(layers):
        if fmts[i] == 'toml' and not ser.toml_ok(l):
            fmts[i] = 'yaml'
    d = ctx.casedir()
    name = 'r'
    for i, l in enumerate(layers):
        if i:
            name += '.l%d' % i
        with open(os.path.join(d, '%s.%s' % (name, fmts[i])), 'w') as f:
            f.write(ser.write(fmts[i], [l], random.Random(json.dumps(l, sort_keys=True, default=str))))
    top = '%s.%s' % (name, fmts[-1])
    want = model.skeleton(merged)
    res.nontrivial = any(s == '$required' for l in layers for s in strings_of(l))
    ofmt = 'json' if case.get('i', 0) % 2 else 'yaml'
    r = cli([ctx.bin('bklr'), '-f', ofmt, top], cwd=d)
    res.execs += 1
    if r.rc != 0:
        ctx.cleanup_case(d)
        if notes.either:
            return res.skip('chain contains a no-op override that may legitimately be rejected as useless')
        return res.violate('skeleton', 'bklr failed: %s' % r.err[-300:].decode('utf-8', 'replace'), layers=layers, fmts=fmts)
    try:
        got = decode_out(ofmt, r.out)
    except Exception as e:
        ctx.cleanup_case(d)
        return res.violate('skeleton', 'bklr output does not parse: %s' % e, layers=layers, out=r.out.decode('utf-8', 'replace'))
    exp = [] if want is None else [want]
    if alt_wants is not None:
        ok_any = any(veq(got, [] if w is None else [w]) for w in alt_wants)
        if not ok_any:
            ctx.cleanup_case(d)
            return res.violate('skeleton', 'bklr output matches no reading of the layered input (null child over an existing value)', layers=layers, fmts=fmts, got=got,
                               readings=alt_wants)
        ctx.cleanup_case(d)
        res.ev('skeleton_agreed')
        return res
    if not veq(got, exp):
        ctx.cleanup_case(d)
        return res.violate('skeleton', 'bklr output is not the $required skeleton of the layered input', layers=layers, fmts=fmts, merged=merged, expect=exp, got=got)
    if ofmt == 'yaml' and want is None and r.out.strip():
        ctx.cleanup_case(d)
        return res.violate('skeleton', 'bklr output not empty although there is no marker', layers=layers, out=r.out.decode())
    res.ev('skeleton_agreed')
    if case.get('i', 0) % 4 == 1:
        # -o onto an existing, longer file (an older skeleton): the file must hold exactly what stdout gets
        oname = 'todo.' + ofmt
        with open(os.path.join(d, oname), 'w') as f:
            f.write(('{"old": {"deep": {"marker": "$required"}}, "pad": "' + 'x' * 600 + '"}\n') if ofmt == 'json' else ('old:\n  deep:\n    marker: $required\n' + 'pad%d: x\n' * 80) % tuple(range(80)))
        ro = cli([ctx.bin('bklr'), '-o', oname, top], cwd=d)
        res.execs += 1
        held = open(os.path.join(d, oname), 'rb').read() if ro.rc == 0 else None
        if held != r.out or ro.out:
            ctx.cleanup_case(d)
            return res.violate('skeleton', 'bklr -o onto an existing file does not leave exactly the skeleton in it (rc=%s)' % ro.rc, layers=layers,
                               stdout_version=r.out.decode('utf-8', 'replace'), file=(held or b'').decode('utf-8', 'replace')[:600])
        res.ev('output_file_replaced')
    res.labels.add('skeleton:' + ('empty' if want is None else 'nonempty'))
    # idempotence
    if want is not None:
        with open(os.path.join(d, 'skel.' + ofmt), 'wb') as f:
            f.write(r.out)
        r2 = cli([ctx.bin('bklr'), '-f', ofmt, 'skel.' + ofmt], cwd=d)
        res.execs += 1
        if r2.rc == 0 and r2.out == r.out and case.get('i', 0) % 3 == 0:
            r3 = cli([ctx.bin('bklr'), '-o', 'skel.' + ofmt, 'skel.' + ofmt], cwd=d)
            res.execs += 1
            inplace = open(os.path.join(d, 'skel.' + ofmt), 'rb').read() if r3.rc == 0 else None
            if inplace != r.out:
                ctx.cleanup_case(d)
                return res.violate('idempotent', 'bklr -o onto its own input does not reproduce it (rc=%s)' % r3.rc, layers=layers, first=r.out.decode(),
                                   inplace=(inplace or b'').decode('utf-8', 'replace'), err=r3.err.decode('utf-8', 'replace')[-200:])
            res.ev('idempotent_in_place')
        if r2.rc != 0 or r2.out != r.out:
            ctx.cleanup_case(d)
            return res.violate('idempotent', 'bklr on its own output changes it', layers=layers, first=r.out.decode(), second=r2.out.decode('utf-8', 'replace'), err=r2.err.decode('utf-8', 'replace')[-200:])
        res.ev('idempotent')
    # agreement with bkl (only when $required is the only directive around)
    others = [s for s in strings_of(merged) if len(s) >= 2 and s[0] == '$' and s != '$required' and s[1].islower()]
    if not others:
        resp = ctx.call([{'op': 'merge_layers', 'path': os.path.join(d, top)}, {'op': 'output', 'format': 'json'}], res)
        if resp is None:
            ctx.cleanup_case(d)
            return res.violate('crash', 'worker died', layers=layers)
        m, o = resp['results']
        if m['err'] is not None:
            ctx.cleanup_case(d)
            return res.violate('agree', 'library failed to merge the layer files: %s' % m['err'], layers=layers, fmts=fmts)
        refused = o['err'] is not None and 'ErrRequiredField' in (o.get('is') or [])
        if refused != (want is not None):
            ctx.cleanup_case(d)
            return res.violate('agree', 'bkl %s but bklr skeleton is %s' % ('refuses with required-field error' if refused else 'does not refuse (err=%s)' % o['err'], 'empty' if want is None else 'non-empty'),
                               layers=layers, fmts=fmts, skeleton=want, out=o.get('out'))
        rb = cli([ctx.bin('bkl'), '-f', 'json', top], cwd=d)
        res.execs += 1
        if (rb.rc != 0) != (want is not None):
            ctx.cleanup_case(d)
            return res.violate('agree', 'bkl binary status %s disagrees with bklr skeleton %s' % (rb.rc, 'empty' if want is None else 'non-empty'), layers=layers, fmts=fmts)
        if want is None:
            got = ser.parse_json_stream(rb.out.decode())
            from .c06 import unescape
            ev = unescape(drop_nulls(merged))
            if not veq(got, [ev], loose=True):
                ctx.cleanup_case(d)
                return res.violate('agree', 'bkl output differs from the merged input', layers=layers, expect=[ev], got=got)
        res.ev('bkl_agreed')
    ctx.cleanup_case(d)
    return res
