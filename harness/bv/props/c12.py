"""C12 $repeat expands to exactly n indexed copies (metamorphic monitor: directive vs hand-unrolled document)."""
import itertools
import json
import re

from ..core import Result, out_bytes, file_crosscheck
import random
from .. import gen, model
from ..val import veq, clone

ID = 'C12'
NEED_BINS = True
SIZES = {'quick': 8000, 'thorough': 2000000}
REQUIRED_EVENTS = ['unrolled_agreed', 'bad_counts_rejected']
RULE = ('templates with $repeat at document level (map and list form), as list entries and as map entries with index-dependent keys, '
        'counts 0-5, named counts (1-3 names, values 0-3), nested repeats (inner shadows outer), a child layer overriding the count, and '
        'non-integer counts. The template holds tokens where the index is used (whole value, interpolation, key); D renders them as '
        '$repeat / {$repeat} / {$repeat:name}, D\' is the hand-unrolled document with the indices substituted. Both run through the real '
        'evaluator; outputs must be byte-identical, the number of copies exactly n (product of named counts) in lexicographic name order; '
        'non-integer counts must fail. Non-trivial = at least one copy uses its index; distinct = distinct templates.')
ASSUMPTIONS = ['negative counts, index-independent map keys and $repeat:name as a whole value are not generated (statement silent)']

TOK = re.compile(r'<<([0-9]|N:[A-Za-z]+|REF:[a-z]+)>>')     # REF:key = the document-level index, reached through a key whose value is $repeat


def subst(s, env):
    """Token -> concrete index (hand substitution)."""
    m = re.fullmatch(r'<<VAL([0-9])>>', s)
    if m:
        return env[m.group(1)]
    return TOK.sub(lambda mm: str(env['0' if mm.group(1).startswith('REF:') else mm.group(1)]), s)


def direct(s):
    """Token -> directive syntax."""
    if re.fullmatch(r'<<VAL[0-9]>>', s):
        return '$repeat'
    if not TOK.search(s):
        return s
    return '$"' + TOK.sub(lambda mm: '{$repeat:%s}' % mm.group(1)[2:] if mm.group(1).startswith('N:') else
                          ('{%s}' % mm.group(1)[4:] if mm.group(1).startswith('REF:') else '{$repeat}'), s) + '"'


def render_direct(v):
    if isinstance(v, dict):
        return {direct(k): render_direct(x) for k, x in v.items()}
    if isinstance(v, list):
        return [render_direct(x) for x in v]
    if isinstance(v, str):
        return direct(v)
    return v


class BadCount(Exception):
    pass


def count_of(c):
    if isinstance(c, bool) or not isinstance(c, int):
        raise BadCount(repr(c))
    return c


def expand(v, env, depth):
    if isinstance(v, dict):
        out = {}
        for k, x in v.items():
            if isinstance(x, dict) and '$repeat' in x:
                n = count_of(x['$repeat'])
                body = {kk: vv for kk, vv in x.items() if kk != '$repeat'}
                for i in range(n):
                    env2 = dict(env)
                    env2[str(depth)] = i
                    out[subst(k, env2)] = expand(body, env2, depth + 1)
            else:
                out[subst(k, env)] = expand(x, env, depth)
        return out
    if isinstance(v, list):
        out = []
        for x in v:
            if isinstance(x, dict) and '$repeat' in x:
                n = count_of(x['$repeat'])
                body = {kk: vv for kk, vv in x.items() if kk != '$repeat'}
                for i in range(n):
                    env2 = dict(env)
                    env2[str(depth)] = i
                    out.append(expand(body, env2, depth + 1))
            else:
                out.append(expand(x, env, depth))
        return out
    if isinstance(v, str):
        return subst(v, env)
    return v


def expand_doc(tpl):
    """Hand-unrolled list of documents for one template document."""
    if isinstance(tpl, dict) and '$repeat' in tpl:
        c = tpl['$repeat']
        body = {k: v for k, v in tpl.items() if k != '$repeat'}
        if isinstance(c, dict):
            names = sorted(c.keys())
            counts = [count_of(c[n]) for n in names]
            docs = []
            for combo in itertools.product(*[range(n) for n in counts]):
                env = {'N:' + n: i for n, i in zip(names, combo)}
                docs.append(expand(body, env, 1))
            return docs
        n = count_of(c)
        return [expand(body, {'0': i}, 1) for i in range(n)]
    if isinstance(tpl, list) and any(isinstance(x, dict) and len(x) == 1 and '$repeat' in x for x in tpl):
        c = next(x['$repeat'] for x in tpl if isinstance(x, dict) and len(x) == 1 and '$repeat' in x)
        body = [x for x in tpl if not (isinstance(x, dict) and len(x) == 1 and '$repeat' in x)]
        if isinstance(c, dict):
            names = sorted(c.keys())
            counts = [count_of(c[n]) for n in names]
            return [expand(body, {'N:' + n: i for n, i in zip(names, combo)}, 1) for combo in itertools.product(*[range(n) for n in counts])]
        n = count_of(c)
        return [expand(body, {'0': i}, 1) for i in range(n)]
    return [expand(tpl, {}, 0)]


def body(rng, depth, nested_ok, named=None, outer=None):
    """Random body using the index token of level `depth` (or named tokens); `outer` = named tokens of an enclosing
    document-level repeat, which stay visible inside nested repeats (a plain outer index is shadowed)."""
    toks = ['<<%d>>' % depth] if named is None else ['<<N:%s>>' % n for n in named]
    out = {}
    if outer and rng.random() < 0.7:
        out['o'] = rng.choice(['', 'of-']) + rng.choice(outer) + rng.choice(['', '/']) + (toks[0] if named is None and rng.random() < 0.5 else '')
    for k in rng.sample(['p', 'q', 'r', 's', 't'], rng.randint(1, 4)):
        r = rng.random()
        if r < 0.2:
            out[k] = gen.scalar(rng)
        elif r < 0.35 and named is None:
            out[k] = '<<VAL%d>>' % depth
        elif r < 0.6:
            out[k] = rng.choice(['', 'a-', 'x:', 'é ', 'n}', 'line1\nline2 ', '\n']) + rng.choice(toks) + rng.choice(['', '-z', ' }', ':', '.', '\nend', '\n'])
            if len(toks) > 1 and rng.random() < 0.5:
                out[k] += '/' + rng.choice(toks)
        elif r < 0.72:
            out[k] = [rng.choice(toks) + 'e', gen.scalar(rng), {'in': 'v' + rng.choice(toks)}]
        elif r < 0.86 and nested_ok:
            inner = body(rng, depth + 1, False, outer=toks if named is not None else None)
            inner['$repeat'] = rng.randint(0, 3)
            out[k] = [rng.choice(['head', 1]), inner, 'tail' + (rng.choice(toks) if rng.random() < 0.5 else '')]
        elif nested_ok:
            inner = body(rng, depth + 1, False, outer=toks if named is not None else None)
            inner['$repeat'] = rng.randint(0, 3)
            out[k] = {'k<<%d>>' % (depth + 1): inner, 'after': rng.choice(toks) + '!'}
        else:
            out[k] = gen.scalar(rng)
    return out


def gen_case(rng, i, tier):
    kind = rng.choice(['doc', 'doc', 'doclist', 'list', 'map', 'named', 'named', 'nested', 'layered', 'badcount'])
    n = rng.randint(0, 5)
    case = {'kind': kind}
    if kind in ('doc', 'nested', 'layered', 'badcount'):
        t = body(rng, 0, kind == 'nested' or rng.random() < 0.3)
        t['$repeat'] = n
        holders = [k for k, x in t.items() if x == '<<VAL0>>']
        if holders and rng.random() < 0.5:
            # an interpolation that reaches the index through a key of the copy whose value is $repeat
            t['via'] = rng.choice(['host-', '', 'n ']) + '<<REF:%s>>' % rng.choice(holders) + rng.choice(['', '.local', '-<<0>>'])
        if kind == 'badcount':
            t['$repeat'] = rng.choice([1.5, '2', True, [2], {'a': 1.5}, {'a': '1'}, {'a': 0, 'b': 'lots'}, {'a': 2, 'b': 0, 'c': True}, {'a': 0, 'b': 1.5}, {'a': 1, 'b': '2'}, {'b': 0, 'a': 'x'}])
        case['layers'] = [t]
        if kind == 'layered':
            case['layers'].append({'$repeat': rng.choice([x for x in range(0, 6) if x != n]), 'top': 1})
    elif kind == 'doclist':
        t = [{'$repeat': n}, 'e<<0>>', {'v': '<<VAL0>>', 'w': gen.scalar(rng)}]
        if rng.random() < 0.35:
            # list-form document with named counts
            t = [{'$repeat': {'a': rng.randint(0, 3), 'b': rng.randint(1, 2)}}, 'e<<N:a>>-<<N:b>>', {'v': 'x<<N:b>>', 'w': gen.scalar(rng)}]
            case['kind'] = 'doclist-named'
        rng.shuffle(t)
        case['layers'] = [t]
    elif kind == 'list':
        inner = body(rng, 0, rng.random() < 0.3)
        inner['$repeat'] = n
        if rng.random() < 0.1:
            inner['$repeat'] = rng.choice([1.5, '2', True])
            case['kind'] = 'badcount'
        case['layers'] = [{'l': ['first', inner, 'last'], 'other': gen.scalar(rng)}]
    elif kind == 'map':
        inner = body(rng, 0, rng.random() < 0.3)
        inner['$repeat'] = n
        if rng.random() < 0.1:
            inner['$repeat'] = rng.choice([1.5, '2', True, [2], '3'])
            case['kind'] = 'badcount'
        case['layers'] = [{'m': {rng.choice(['k<<0>>', '<<0>>', 'a<<0>>b']): inner, 'fixed': 1}}]
    else:
        names = rng.sample(['a', 'b', 'c', 'Zone', 'App', 'Z', 'aa', 'B'], rng.randint(1, 3))
        t = body(rng, 0, rng.random() < 0.4, named=names)
        t['$repeat'] = {nm: rng.randint(0, 3) for nm in names}
        case['layers'] = [t]
        if rng.random() < 0.3:
            nm = rng.choice(names)
            case['layers'].append({'$repeat': {nm: rng.choice([x for x in range(0, 4) if x != t['$repeat'][nm]])}})
            case['kind'] = 'named-layered'
    return case


def fixed_cases(tier):
    out = []
    for n in range(0, 6):
        out.append({'kind': 'doc', 'layers': [{'$repeat': n, 'v': '<<VAL0>>', 's': 'i=<<0>>', 'k<<0>>': 1}]})
        out.append({'kind': 'list', 'layers': [{'l': [{'$repeat': n, 'v': '<<VAL0>>'}, 'z']}]})
        out.append({'kind': 'map', 'layers': [{'m': {'k<<0>>': {'$repeat': n, 'v': '<<VAL0>>'}}}]})
        out.append({'kind': 'nested', 'layers': [{'$repeat': 3, 'a': [{'$repeat': n, 'i': '<<VAL1>>'}], 'z': '<<VAL0>>', 'zz': 't<<0>>'}]})
        out.append({'kind': 'nested', 'layers': [{'$repeat': 2, 'a': {'k<<1>>': {'$repeat': n, 'i': '<<VAL1>>'}}, 'z': '<<VAL0>>'}]})
    for ca, cb, cc in itertools.product(range(0, 3), repeat=3):
        out.append({'kind': 'named', 'layers': [{'$repeat': {'a': ca, 'b': cb, 'c': cc}, 'v': '<<N:a>>-<<N:b>>-<<N:c>>', '<<N:c>>k': '<<N:a>>'}]})
    for n in range(0, 4):
        out.append({'kind': 'named', 'layers': [{'$repeat': {'b': n}, 'v': 'x<<N:b>>'}]})
    out.append({'kind': 'named', 'layers': [{'$repeat': {'Zone': 2, 'app': 3}, 'v': '<<N:Zone>>/<<N:app>>'}]})
    out.append({'kind': 'named', 'layers': [{'$repeat': {'b': 2, 'B': 2, 'a': 2}, 'v': '<<N:b>><<N:B>><<N:a>>'}]})
    out.append({'kind': 'doc', 'layers': [{'$repeat': 3, 'idx': '<<VAL0>>', 'name': 'host-<<REF:idx>>'}]})
    out.append({'kind': 'named', 'layers': [{'$repeat': {'zone': 2}, 'hosts': [{'$repeat': 2, 'n': 'z<<N:zone>>-h<<1>>'}], 'm': {'k<<1>>': {'$repeat': 2, 'v': '<<N:zone>>/<<VAL1>>'}}}]})
    out.append({'kind': 'doclist-named', 'layers': [[{'$repeat': {'a': 2, 'b': 2}}, 'e<<N:a>>-<<N:b>>']]})
    for bad in (1.5, '3', True, [2]):
        out.append({'kind': 'badcount', 'layers': [{'m': {'k<<0>>': {'$repeat': bad, 'v': 1}}}]})
        out.append({'kind': 'badcount', 'layers': [{'l': [{'$repeat': bad, 'v': 1}]}]})
    out.append({'kind': 'doc', 'layers': [{'$repeat': 2, 'v': 'first\nidx=<<0>>\nlast', 'w': '<<0>>\n'}]})
    out.append({'kind': 'list', 'layers': [{'l': [{'$repeat': 2, 'v': 'a\n<<0>>'}]}]})
    return out


def shrink(case):
    from ..shrink import shrink_tree
    layers = case['layers']
    if len(layers) > 1:
        yield dict(case, layers=layers[:1], kind='doc')
    for t in shrink_tree(layers[0]):
        if type(t) is type(layers[0]) and ('$repeat' in json.dumps(t)):
            yield dict(case, layers=[t] + layers[1:])


def check_case(ctx, case):
    res = Result()
    res.labels.add('kind:' + case['kind'])
    layers = case['layers']
    if '<<REF:' in json.dumps(layers):
        res.labels.add('index-through-key-reference')
    # merged template (layering only overrides counts / adds plain keys)
    tpl = clone(layers[0])
    try:
        for l in layers[1:]:
            tpl = model.merge(tpl, l, model.Notes(null_policy='keep'))
    except model.Reject:
        return res.skip('layering rejected')
    try:
        unrolled = expand_doc(tpl)
        bad = None
    except BadCount as e:
        unrolled, bad = None, str(e)
    ops = []
    for i, l in enumerate(layers):
        ops.append({'op': 'merge_doc', 'id': 'L%d' % i, 'parents': ['L%d' % (i - 1)] if i else [], 'data': render_direct(l), 'parser': 0})
    ops.append({'op': 'output', 'format': 'json', 'parser': 0})
    ops.append({'op': 'output_docs', 'parser': 0})
    if unrolled is not None:
        for i, d in enumerate(unrolled):
            ops.append({'op': 'merge_doc', 'id': 'U%d' % i, 'data': d, 'parser': 1})
        ops.append({'op': 'output', 'format': 'json', 'parser': 1})
        ops.append({'op': 'output_docs', 'parser': 1})
    resp = ctx.call(ops, res)
    if resp is None:
        return res.violate('crash', 'worker died', case=case)
    rs = resp['results']
    for r in rs:
        if r.get('panic'):
            return res.violate('crash', 'panic: ' + r['panic'][:300], case=case)
    nl = len(layers)
    od, vd = rs[nl], rs[nl + 1]
    merr = next((r['err'] for r in rs[:nl] if r['err']), None)
    text = json.dumps(layers)
    res.nontrivial = '<<' in text
    if bad is not None:
        if merr is None and od['err'] is None:
            return res.violate('count', 'a count that is not an integer (%s) was accepted' % bad, case=case, out=od.get('out'))
        res.labels.add('outcome:bad-count-rejected')
        res.ev('bad_counts_rejected')
        return res
    ou, vu = rs[-2], rs[-1]
    if merr is not None or od['err'] is not None:
        return res.violate('unroll', '$repeat document failed: %s' % (merr or od['err']), case=case, direct=render_direct(tpl), unrolled=unrolled)
    if ou['err'] is not None:
        return res.inconclusive('hand-unrolled document failed: %s' % ou['err'])
    got = [json.loads(l) for l in out_bytes(od).decode().splitlines() if l.strip()]
    want = [json.loads(l) for l in out_bytes(ou).decode().splitlines() if l.strip()]
    if case['kind'] in ('doc', 'doclist', 'doclist-named', 'named', 'nested', 'layered', 'named-layered') and len(got) != len(unrolled):
        return res.violate('count', 'expected exactly %d copies, got %d' % (len(unrolled), len(got)), case=case, got=got)
    if out_bytes(od) != out_bytes(ou):
        return res.violate('unroll', '$repeat expansion differs from the hand-unrolled document', case=case, direct=render_direct(tpl), expect=want, got=got)
    if not veq(vd.get('values'), vu.get('values')):
        return res.violate('unroll', '$repeat expansion differs from the hand-unrolled document in value types', case=case, expect=vu.get('values'), got=vd.get('values'))
    res.ev('unrolled_agreed')
    if case.get('i', 0) % 12 == 0 and len(layers) == 1:
        if not file_crosscheck(ctx, res, [render_direct(layers[0])], True, out_bytes(od), {'case': case}, random.Random(case.get('i', 0))):
            return res
    res.ev('copies_checked', len(unrolled))
    res.labels.add('copies:%s' % (len(got) if len(got) < 6 else '6+'))
    return res
