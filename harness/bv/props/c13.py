"""C13 Interpolation and $env substitute exactly the referenced values (reference monitor by plain concatenation)."""
import json
import os
import random

from ..core import Result, out_bytes, cli, scrub_env
from .. import gen
from ..val import veq, clone, walk

ID = 'C13'
SIZES = {'quick': 20000, 'thorough': 2000000}
SEED = 1
REQUIRED_EVENTS = ['substitutions_agreed', 'missing_rejected']
RULE = ('templates $"..." of 0-4 $-free literal segments (punctuation, unicode, } and :) and 0-4 references to scalar paths of a random '
        'document (strings, integers, booleans, short decimals), to $env:NAME and (inside $repeat) to the repeat variable; whole-value and '
        'key $env:NAME; environment values are arbitrary printable $-free text including look-alikes of numbers, booleans, null, braces and '
        '=; unset names and missing paths. Each worker child is spawned with the batch\'s environment. Expected string = plain concatenation '
        'computed by the harness; $env results must be strings with exactly the variable\'s bytes; a missing reference must fail. A sample '
        'runs through the bkl binary. Non-trivial = at least one reference; distinct = distinct (document, environment).')
ASSUMPTIONS = ['environment values containing $ are excluded from the generated workload (recorded known finding, see known_findings.json)',
               'text form of floats with exponents and of non-scalars is not judged',
               'path segments are keys that YAML reads as plain strings: the text of a path is decoded as YAML by design (list form [a, b]), so a key '
               'spelled 9, true or @x cannot be named by a dotted path and is not generated']

VALS = ['', 'plain', '123', '1.5', 'true', 'null', 'No', '~', 'a=b', 'k=v=w', '{a}', '{', '}', '{$env:X', 'a b', ' lead', 'trail ', 'q"uote', "s'q", 'ünï', 'x:y', '- z', '# c',
        '[1]', '{"k": 1}', 'host=db port=5432', '{b}|{a}', '0x10', '1e3', '\\n', 'tab\there', 'a,b', '*', '&x', '!t', '%', '@', 'very long value ' * 3]
SEGS = ['\n', 'l1\nl2', 'end\n', '', 'a', '-', ' ', ':', '}', '} ', 'x}y', 'é', '/', '.', ', ', '=', '"', "'", '#', 'seg ', '()', '[]', '|', '\\', 'A:B ', '~', '*&!']


PATHKEYS = ['listen-port', 'host name', 'a_b', 'ünï', 'x/y', 'K8s', 'a-b-c', 'plus+', 'q?', 'semi;', 'tilde~', '(p)', 'v9', 'at@']     # keys a {path} can name


def env_for(group):
    r = random.Random('env/%s/%s' % (SEED, group))
    env = {}
    for k in range(8):
        v = r.choice(VALS) if r.random() < 0.7 else ''.join(r.choice('abcXYZ019 =:{}[]",.-_/\\\'()*&^%#@!~éü') for _ in range(r.randint(0, 12)))
        env['VERIF_V%d' % k] = v
    # a value containing $ in one of the spellings that a whole-value $env:NAME must hand through verbatim (the spellings of the
    # recorded findings - $$, $ + lowercase letter - are not used; inside interpolations this variable is not referenced)
    env['VERIF_W'] = r.choice(['$"{a}"', '$"x"', '$', '$"', 'a$b', '$A', '$1', '$"{$env:VERIF_V0}"', 'x$'])
    return env


def text_of(v):
    if v is True:
        return 'true'
    if v is False:
        return 'false'
    return str(v)


def gen_case(rng, i, tier):
    group = i // 512
    env = env_for(group)
    doc = gen.tree(rng, 3, 3, nulls=False, root='map', pool=[0, 1, 2, 7, -5, 1.5, 0.25, 'x', 'y', 'zz', 'sp ace', True, False],
                   keys=gen.KEYS + PATHKEYS if rng.random() < 0.5 else None)
    leaves = [(p, n) for p, n in walk(doc) if p and all(isinstance(k, str) and '.' not in k and '}' not in k and '{' not in k for k in p) and not isinstance(n, (dict, list))]
    uses = []
    out = {}
    nuse = rng.randint(1, 3)
    repeat = rng.random() < 0.15
    for u in range(nuse):
        kind = rng.choice(['interp', 'interp', 'interp', 'env-value', 'env-key', 'interp-key'])
        if kind in ('interp', 'interp-key'):
            nseg = rng.randint(0, 4)
            parts = []
            for s in range(nseg + 1):
                parts.append(('lit', rng.choice(SEGS)))
                if s < nseg:
                    r = rng.random()
                    if r < 0.45 and leaves:
                        p, n = rng.choice(leaves)
                        parts.append(('path', '.'.join(p), text_of(n)))
                    elif r < 0.8:
                        name = rng.choice([k for k in env.keys() if k != 'VERIF_W'])
                        parts.append(('env', name, env[name]))
                    elif r < 0.86 and repeat:
                        parts.append(('repeat', None, None))
                    elif r < 0.93:
                        parts.append(('missing-path', rng.choice(['no.such.path', 'VERIF_V0', 'VERIF_V3', 'HOME', 'PATH', 'nosuch']), None))
                    else:
                        parts.append(('missing-env', rng.choice(['VERIF_UNSET_%d' % rng.randint(0, 9), 'verif_v0', 'Verif_V1', 'VERIF_v2', 'home', 'Path']), None))
            uses.append({'kind': kind, 'parts': parts, 'at': 'u%d' % u, 'wrap': rng.choice([0, 0, 1, 2])})
        elif kind == 'env-value':
            name = rng.choice(list(env.keys()) + ['VERIF_W'] * 2) if rng.random() < 0.9 else rng.choice(['VERIF_UNSET_X', 'verif_v0', 'Verif_V3'])
            uses.append({'kind': kind, 'name': name, 'at': 'u%d' % u, 'wrap': rng.choice([0, 0, 1, 2])})
        else:
            name = rng.choice(list(env.keys()) + ['VERIF_W']) if rng.random() < 0.9 else rng.choice(['VERIF_UNSET_X', 'verif_v0', 'Verif_V3'])
            uses.append({'kind': kind, 'name': name, 'at': 'u%d' % u, 'wrap': rng.choice([0, 0, 1, 2])})
    return {'doc': doc, 'uses': uses, 'group': group, 'repeat': repeat, 'cli': i % 61 == 0}


def fixed_cases(tier):
    return []


def build(case, env):
    """Returns (document with the uses planted, expected additions or None if a reference is missing)."""
    d = clone(case['doc'])
    expect = {}
    missing = False
    copies = 2 if case.get('repeat') else 1
    for u in case['uses']:
        k = u['kind']
        if k in ('interp', 'interp-key'):
            tpl = ''
            vals = ['' for _ in range(copies)]
            for p in u['parts']:
                if p[0] == 'lit':
                    tpl += p[1]
                    vals = [v + p[1] for v in vals]
                elif p[0] == 'path':
                    tpl += '{%s}' % p[1]
                    vals = [v + p[2] for v in vals]
                elif p[0] == 'env':
                    tpl += '{$env:%s}' % p[1]
                    vals = [v + env.get(p[1], '') for v in vals]
                    if p[1] not in env:
                        missing = True
                elif p[0] == 'repeat':
                    tpl += '{$repeat}'
                    vals = [v + str(i) for i, v in enumerate(vals)]
                elif p[0] == 'missing-path':
                    tpl += '{%s}' % p[1]
                    missing = True
                else:
                    tpl += '{$env:%s}' % p[1]
                    missing = True
            s = '$"' + tpl + '"'
            if k == 'interp':
                d[u['at']] = s
                expect[u['at']] = vals
            else:
                d[u['at']] = {'P_' + u['at'] + '_': 0, s: 1}
                expect[u['at']] = [{'P_' + u['at'] + '_': 0, v: 1} for v in vals]
                if any(v == 'P_' + u['at'] + '_' for v in vals) or len(set(vals)) < 1:
                    missing = missing
        elif k == 'env-value':
            d[u['at']] = '$env:' + u['name']
            if u['name'] not in env:
                missing = True
            expect[u['at']] = [env.get(u['name'])] * copies
        else:
            d[u['at']] = {'$env:' + u['name']: 1, 'fixedkey': 2}
            if u['name'] not in env:
                missing = True
            v = env.get(u['name'])
            expect[u['at']] = [{v: 1, 'fixedkey': 2} if v != 'fixedkey' else None] * copies
    # nesting: the use sits below a list / map-in-list instead of at the top level
    for u in case['uses']:
        w = u.get('wrap', 0)
        if not w:
            continue
        at = u['at']

        def wrap(x):
            return {'in': [0, {'v': x}]} if w == 1 else [[x], {'deep': {'er': x}}]
        d[at] = wrap(d[at])
        expect[at] = [wrap(x) if x is not None else None for x in expect[at]]
    if case.get('repeat'):
        d['$repeat'] = 2
    return d, (None if missing else expect)


def shrink(case):
    uses = case['uses']
    if len(uses) > 1:
        for i in range(len(uses)):
            yield dict(case, uses=uses[:i] + uses[i + 1:])
    for i, u in enumerate(uses):
        if 'parts' in u and len(u['parts']) > 1:
            for j in range(len(u['parts'])):
                yield dict(case, uses=uses[:i] + [dict(u, parts=u['parts'][:j] + u['parts'][j + 1:])] + uses[i + 1:])
    from ..shrink import shrink_tree
    for t in shrink_tree(case['doc']):
        if isinstance(t, dict):
            yield dict(case, doc=t)


def check_case(ctx, case):
    res = Result()
    env = case.get('env') or env_for(case['group'])
    d, expect = build(case, env)
    for u in case['uses']:
        res.labels.add('use:' + u['kind'])
        for p in u.get('parts', []):
            if p[0] != 'lit':
                res.labels.add('ref:' + p[0])
    if expect is not None and any(x is None for v in expect.values() for x in v):
        return res.skip('environment value collides with a fixed key')
    key = json.dumps(env, sort_keys=True)
    w = ctx.env_worker('c13', None)
    if getattr(w, 'envkey', None) != key:
        ctx.drop_worker('c13')
        w = ctx.env_worker('c13', scrub_env(env))
        w.envkey = key
        res.ev('worker_spawned_with_env')
    resp = ctx.call([{'op': 'merge_doc', 'id': 'd', 'data': d}, {'op': 'output_docs'}, {'op': 'output', 'format': 'json'}], res, worker=w)
    if resp is None:
        return res.violate('crash', 'worker died', doc=d, env=env)
    m, v, o = resp['results']
    for r in resp['results']:
        if r.get('panic'):
            return res.violate('crash', 'panic: ' + r['panic'][:300], doc=d, env=env)
    res.nontrivial = True
    if expect is None:
        if o['err'] is None:
            return res.violate('missing', 'a missing reference / unset variable did not fail', doc=d, env=env, out=o.get('out'))
        res.labels.add('outcome:missing-rejected')
        res.ev('missing_rejected')
    else:
        if o['err'] is not None:
            return res.violate('subst', 'evaluation failed: %s' % o['err'], doc=d, env=env, expect=expect)
        outs = v['values']
        copies = 2 if case.get('repeat') else 1
        if len(outs) != copies:
            return res.violate('subst', 'expected %d output documents, got %d' % (copies, len(outs)), doc=d, env=env)
        for ci, od in enumerate(outs):
            for at, vals in expect.items():
                if not veq(od.get(at), vals[ci]):
                    return res.violate('subst', 'substitution result at %s is not the literal text with the referenced values' % at,
                                       doc=d, env=env, expect=vals[ci], got=od.get(at))
                res.ev('substitutions_agreed')
            for k, val in case['doc'].items():
                if not veq(od.get(k), val):
                    return res.violate('subst', 'unrelated key %s changed' % k, doc=d, env=env)
        res.labels.add('outcome:substituted')
    if case.get('i', 0) % 64 == 5 and res.verdict == 'held':
        # the value is the variable's value at the time of the evaluation: the variable changes between evaluations in one process
        seq = [('set', 'first'), ('set', 'second value'), ('set', ''), ('unset', None), ('set', 'again')]
        ops = []
        for k, (what, val) in enumerate(seq):
            ops.append({'op': 'setenv', 'id': 'VERIF_DYN', 'format': val or '', 'path': 'unset' if what == 'unset' else ''})
            ops.append({'op': 'merge_doc', 'id': 'dyn', 'data': {'v': '$env:VERIF_DYN', 't': '$"<{$env:VERIF_DYN}>"'}, 'parser': k})
            ops.append({'op': 'output_docs', 'parser': k})
        ops.append({'op': 'setenv', 'id': 'VERIF_DYN', 'path': 'unset'})
        rd = ctx.call(ops, res, worker=w)
        if rd is None:
            return res.violate('crash', 'worker died (changing environment)')
        for k, (what, val) in enumerate(seq):
            r_ = rd['results'][3 * k + 2]
            if what == 'unset':
                if r_['err'] is None:
                    return res.violate('missing', 'a variable removed from the environment before the evaluation is still substituted', got=r_.get('values'))
            elif r_['err'] is not None or not veq(r_['values'], [{'v': val, 't': '<%s>' % val}]):
                return res.violate('subst', '$env:NAME is not the value the variable has when the evaluation runs (variable changed between evaluations in one process)',
                                   step=k, expect=val, got=r_.get('values'), err=r_['err'])
        res.ev('environment_changed_between_evaluations')
        # {$repeat} is the index of the ENCLOSING repeat: a list-level repeat nested in a map-level one must not leak its index into
        # the key and the siblings evaluated after it, and a {$repeat} after (outside) a list repeat is a missing reference
        nested = {'servers': {'$"s{$repeat}"': {'$repeat': 2, 'ports': [{'$repeat': 3, 'p': '$"p{$repeat}"'}], 'zname': '$"n{$repeat}"'}}}
        ports = [{'p': 'p0'}, {'p': 'p1'}, {'p': 'p2'}]
        want = [{'servers': {'s0': {'ports': ports, 'zname': 'n0'}, 's1': {'ports': ports, 'zname': 'n1'}}}]
        stray = {'a': [{'$repeat': 2, 'x': '$"x{$repeat}"'}], 'b': '$"after-{$repeat}"'}
        rn = ctx.call([{'op': 'merge_doc', 'id': 'nest', 'data': nested, 'parser': 20}, {'op': 'output_docs', 'parser': 20},
                       {'op': 'merge_doc', 'id': 'stray', 'data': stray, 'parser': 21}, {'op': 'output_docs', 'parser': 21}], res, worker=w)
        if rn is None:
            return res.violate('crash', 'worker died (nested repeat)')
        if rn['results'][1]['err'] is not None or not veq(rn['results'][1]['values'], want):
            return res.violate('subst', '{$repeat} below a map-level repeat is not the index of the enclosing repeat once a nested list repeat has run',
                               doc=nested, expect=want, got=rn['results'][1].get('values'), err=rn['results'][1]['err'])
        if rn['results'][3]['err'] is None:
            return res.violate('missing', '{$repeat} outside any repeat (after a list repeat in the same document) did not fail', doc=stray, got=rn['results'][3].get('values'))
        res.ev('nested_repeat_scopes_checked')
    if case.get('cli'):
        dd = ctx.casedir()
        with open(os.path.join(dd, 'in.json'), 'w') as f:
            json.dump(d, f)
        r = cli([ctx.bin('bkl'), '-f', 'json', 'in.json'], cwd=dd, env=scrub_env(env))
        res.execs += 1
        res.labels.add('via:cli')
        if expect is None:
            if r.rc == 0:
                res.violate('missing', 'bkl binary: missing reference did not fail', doc=d, env=env)
        elif r.rc != 0 or r.out != out_bytes(o):
            res.violate('subst', 'bkl binary result differs from the library (rc=%s)' % r.rc, doc=d, env=env, stdout=r.out.decode('utf-8', 'replace'), stderr=r.err.decode('utf-8', 'replace')[-200:])
        ctx.cleanup_case(dd)
    return res
