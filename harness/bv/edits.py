"""Edit scripts for the bkld / bkli workloads: target = arbitrary edit of base (map-rooted, null-free, $-free)."""
from .val import clone, kind
from . import gen

POOL = [0, 1, 2, 7, 1.5, 0.1, 'x', 'y', '', 'zz', '8080', 'true', True, False, 2**53, 2**53 + 1, 2**53 + 2, 2**63 - 1, 2**63 - 2, 1234567890123456789, 1234567890123456790]


def base_tree(rng):
    t = gen.tree(rng, 3, 3, nulls=False, root='map', pool=POOL)
    # lists whose entries are partial matches of one another (what a $delete pattern over-matches)
    if rng.random() < 0.5:
        t[rng.choice(['l', 'm'])] = partial_list(rng)
    if rng.random() < 0.3:
        t[rng.choice(['n', 'o'])] = [rng.choice(POOL) for _ in range(rng.randint(0, 4))]
    if rng.random() < 0.2:
        t[rng.choice(['p', 'q'])] = rng.choice([{}, []])
    if rng.random() < 0.05:
        # a long list with repeated entries (more than 64)
        base = ['e%d' % (j % rng.choice([7, 30, 90])) for j in range(rng.randint(66, 100))]
        t[rng.choice(['r', 's'])] = base
    return t


def partial_list(rng):
    a = {'a': rng.choice([1, 2])}
    b = dict(a, b=rng.choice([1, 2, 'x']))
    c = dict(b, c=[1, 2])
    out = [a, b]
    if rng.random() < 0.5:
        out.append(c)
    if rng.random() < 0.4:
        out.append({'a': [1, 2]})
        out.append({'a': [2, 1]})
    if rng.random() < 0.3:
        out.append(clone(a))
    rng.shuffle(out)
    return out


def fresh(rng, depth=1):
    return gen.tree(rng, depth, 2, nulls=False, pool=POOL)


def edit(rng, t, labels, depth=0, p=0.35):
    """Returns an edited copy of t."""
    if isinstance(t, dict):
        out = {}
        for k, v in t.items():
            r = rng.random()
            if r < p * 0.25:
                labels.add('edit:key-removed')
                continue
            if r < p * 0.45:
                out[k] = change_kind(rng, v, labels)
            elif r < p or depth < 1:
                out[k] = edit(rng, v, labels, depth + 1, p)
            else:
                out[k] = clone(v)
        if rng.random() < p * 0.6:
            free = [k for k in gen.KEYS + ['f', 'g'] if k not in t]
            if free:
                labels.add('edit:key-added')
                out[rng.choice(free)] = fresh(rng, 2)
        return out
    if isinstance(t, list):
        out = [clone(x) for x in t]
        for _ in range(rng.randint(0, 2)):
            r = rng.random()
            if r < 0.2:
                labels.add('edit:list-append')
                out.append(fresh(rng))
            elif r < 0.35 and out:
                labels.add('edit:list-remove')
                out.pop(rng.randrange(len(out)))
            elif r < 0.5 and len(out) > 1:
                labels.add('edit:list-reorder')
                rng.shuffle(out)
            elif r < 0.62 and out:
                labels.add('edit:list-duplicate')
                out.insert(rng.randint(0, len(out)), clone(rng.choice(out)))
            elif r < 0.74:
                labels.add('edit:list-insert-middle')
                out.insert(rng.randint(0, len(out)), fresh(rng))
            elif r < 0.9 and out:
                labels.add('edit:list-entry-changed')
                i = rng.randrange(len(out))
                out[i] = edit(rng, out[i], labels, depth + 1, 0.6)
        return out
    if rng.random() < 0.7:
        labels.add('edit:scalar-changed')
        o = gen.other_scalar(rng, t, POOL)
        if rng.random() < 0.15:
            # same spelling, different type
            o = str(t) if not isinstance(t, str) and not isinstance(t, bool) else o
            labels.add('edit:scalar-retyped')
        return o
    return t


def change_kind(rng, v, labels):
    k = kind(v)
    r = rng.random()
    if k == 'map':
        labels.add('edit:map-to-' + ('scalar' if r < 0.5 else 'list') + ('' if v else ':empty'))
        return rng.choice(POOL) if r < 0.5 else [fresh(rng) for _ in range(rng.randint(0, 2))]
    if k == 'list':
        labels.add('edit:list-to-' + ('scalar' if r < 0.5 else 'map') + ('' if v else ':empty'))
        return rng.choice(POOL) if r < 0.5 else gen.tree(rng, 1, 2, nulls=False, root='map', pool=POOL)
    labels.add('edit:scalar-to-' + ('map' if r < 0.5 else 'list'))
    if r < 0.5:
        return gen.tree(rng, 1, 2, nulls=False, root='map', pool=POOL) if rng.random() < 0.8 else {}
    return [fresh(rng) for _ in range(rng.randint(0, 2))]
