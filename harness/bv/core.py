"""Core of the /verif runtime-monitoring harness for gopatchy/bkl.

Everything that touches the code under test is rebuilt from /repo's current
working tree into a scratch directory by build(): the six binaries with
-tags verif, and the in-process `worker` (linked to /repo through a replace
directive).  The driver itself (this Python code) never imports bkl.

A property module supplies
    gen_case(rng, i, tier) -> case (JSON-serialisable dict)
    check_case(ctx, case)  -> Result
and optionally fixed_cases(tier), shrink(case), classify(case, result),
finish(ctx, merged).  The framework shards the case list over processes,
each shard owning one worker child, merges the statistics, minimises and
records violations, matches known findings and writes the evidence file.
"""
import base64
import hashlib
import json
import multiprocessing
import os
import random
import select
import shutil
import signal
import subprocess
import sys
import tempfile
import time
import traceback

VERIF = os.path.dirname(os.path.dirname(os.path.dirname(os.path.abspath(__file__))))
REPO = os.environ.get('VERIF_REPO', '/repo')
NSHARDS = 16
EVIDENCE = os.environ.get('VERIF_EVIDENCE_DIR') or os.path.join(VERIF, 'evidence')
REPLAYS = os.environ.get('VERIF_REPLAY_DIR') or os.path.join(VERIF, 'replays')
STEP_BUDGET = 2_000_000
WATCHDOG_S = 120

BINS = ['bkl', 'bkld', 'bkli', 'bklr', 'bklb', 'kubectl-bkl']


def goenv():
    env = dict(os.environ)
    env['GOFLAGS'] = '-mod=mod'
    env['GOPROXY'] = 'off'
    env.pop('GOTOOLCHAIN', None)
    env.pop('GOSUMDB', None)
    env.pop('GOWORK', None)
    return env


class BuildError(Exception):
    pass


class Build:
    def __init__(self, scratch):
        self.scratch = scratch
        self.bindir = os.path.join(scratch, 'bin')
        self.worker = os.path.join(self.bindir, 'worker')
        self.worker_race = os.path.join(self.bindir, 'worker-race')
        self.spy = os.path.join(self.bindir, 'spy')

    def bin(self, name):
        return os.path.join(self.bindir, name)


def build(scratch, bins=True, race=False):
    """Build the code under test from /repo's working tree, hooks on."""
    b = Build(scratch)
    os.makedirs(b.bindir, exist_ok=True)
    env = goenv()
    t0 = time.time()

    def run(cmd, cwd):
        p = subprocess.run(cmd, cwd=cwd, env=env, stdout=subprocess.PIPE, stderr=subprocess.STDOUT, text=True)
        if p.returncode != 0:
            raise BuildError('%s (in %s) failed:\n%s' % (' '.join(cmd), cwd, p.stdout[-4000:]))

    hgo = os.path.join(scratch, 'hgo')
    shutil.copytree(os.path.join(VERIF, 'harness', 'go'), hgo)
    shutil.copy(os.path.join(REPO, 'go.sum'), os.path.join(hgo, 'go.sum'))
    if REPO != '/repo':
        gm = open(os.path.join(hgo, 'go.mod')).read().replace('=> /repo', '=> ' + REPO)
        open(os.path.join(hgo, 'go.mod'), 'w').write(gm)
    jobs = [(['go', 'build', '-tags', 'verif', '-o', b.worker, './cmd/worker'], hgo),
            (['go', 'build', '-o', b.spy, './cmd/spy'], hgo)]
    if bins:
        jobs.append((['go', 'build', '-tags', 'verif', '-o', b.bindir + '/', './cmd/...'], REPO))
    if race:
        jobs.append((['go', 'build', '-race', '-tags', 'verif', '-o', b.worker_race, './cmd/worker'], hgo))
    for cmd, cwd in jobs:
        run(cmd, cwd)
    b.build_s = time.time() - t0
    return b


class WorkerDied(Exception):
    def __init__(self, status, stderr, hang=False):
        Exception.__init__(self, 'worker died status=%s hang=%s' % (status, hang))
        self.status = status
        self.stderr = stderr
        self.hang = hang


class Worker:
    """One child process executing API calls in-process against /repo's library."""

    def __init__(self, path, env=None, cwd=None, mem_gib=6):
        self.path = path
        self.env = env
        self.cwd = cwd
        self.mem_gib = mem_gib
        self.proc = None
        self.errpath = None
        self.n = 0
        self.spawns = 0

    def start(self):
        fd, self.errpath = tempfile.mkstemp(prefix='worker-err-', dir=os.path.dirname(os.path.dirname(self.path)))
        env = dict(self.env) if self.env is not None else scrub_env()
        env.setdefault('GORACE', 'halt_on_error=0')
        # ulimit -v cannot be used with the race detector (huge virtual reservations)
        pre = None
        if not self.path.endswith('-race'):
            lim = self.mem_gib << 30

            def pre():
                import resource
                resource.setrlimit(resource.RLIMIT_AS, (lim, lim))
        self.proc = subprocess.Popen([self.path], stdin=subprocess.PIPE, stdout=subprocess.PIPE, stderr=fd,
                                     env=env, cwd=self.cwd, preexec_fn=pre, bufsize=0)
        os.close(fd)
        self.buf = b''
        self.spawns += 1

    def stderr_text(self):
        try:
            with open(self.errpath, 'rb') as f:
                return f.read().decode('utf-8', 'replace')
        except Exception:
            return ''

    def stop(self):
        if self.proc is not None:
            try:
                self.proc.stdin.close()
            except Exception:
                pass
            try:
                self.proc.wait(timeout=5)
            except Exception:
                self.proc.kill()
                self.proc.wait()
            self.proc = None
        if self.errpath:
            try:
                os.unlink(self.errpath)
            except OSError:
                pass
            self.errpath = None

    def _die(self, hang=False):
        if hang:
            try:
                self.proc.send_signal(signal.SIGQUIT)
                time.sleep(0.5)
            except Exception:
                pass
        try:
            self.proc.kill()
        except Exception:
            pass
        status = self.proc.wait()
        err = self.stderr_text()
        self.proc = None
        try:
            os.unlink(self.errpath)
        except OSError:
            pass
        self.errpath = None
        raise WorkerDied(status, err[-6000:], hang)

    def call(self, ops, budget=STEP_BUDGET, events=False, timeout=WATCHDOG_S):
        if self.proc is None:
            self.start()
        self.n += 1
        req = json.dumps({'id': self.n, 'ops': ops, 'budget': budget, 'events': events}).encode() + b'\n'
        try:
            self.proc.stdin.write(req)
        except (BrokenPipeError, OSError):
            self._die()
        deadline = time.time() + timeout
        fd = self.proc.stdout.fileno()
        while b'\n' not in self.buf:
            left = deadline - time.time()
            if left <= 0:
                self._die(hang=True)
            r, _, _ = select.select([fd], [], [], min(left, 5))
            if not r:
                continue
            chunk = os.read(fd, 1 << 20)
            if not chunk:
                self._die()
            self.buf += chunk
        line, self.buf = self.buf.split(b'\n', 1)
        resp = json.loads(line)
        assert resp['id'] == self.n
        return resp


def scrub_env(extra=None, path_prefix=None):
    env = {'PATH': '/usr/local/bin:/usr/bin:/bin', 'HOME': '/nonexistent', 'LANG': 'C.UTF-8'}
    if path_prefix:
        env['PATH'] = path_prefix + ':' + env['PATH']
    if extra:
        env.update(extra)
    return env


class CliResult:
    __slots__ = ('rc', 'out', 'err', 'timeout')

    def __init__(self, rc, out, err, timeout=False):
        self.rc, self.out, self.err, self.timeout = rc, out, err, timeout

    def as_dict(self):
        return {'rc': self.rc, 'stdout': self.out.decode('utf-8', 'replace'), 'stderr': self.err.decode('utf-8', 'replace')[-2000:]}


CRASH_MARKS = (b'panic:', b'fatal error:', b'goroutine ', b'runtime error', b'SIGSEGV', b'VERIF-STEP-BUDGET')


def crashed(rc, stderr):
    """Did the process die rather than report? (timeout, signal, step budget, or Go runtime crash output;
    which non-zero status a tool uses for reported errors is not judged)"""
    if isinstance(stderr, str):
        stderr = stderr.encode('utf-8', 'replace')
    return rc is None or rc < 0 or rc == 97 or any(m in (stderr or b'') for m in CRASH_MARKS)


def cli(argv, cwd, env=None, stdin=b'', timeout=WATCHDOG_S, budget=STEP_BUDGET):
    env = dict(env) if env is not None else scrub_env()
    if budget:
        env['BKL_VERIF_STEPS'] = str(budget)
    try:
        p = subprocess.run(argv, cwd=cwd, env=env, input=stdin, stdout=subprocess.PIPE, stderr=subprocess.PIPE, timeout=timeout)
        return CliResult(p.returncode, p.stdout, p.stderr)
    except subprocess.TimeoutExpired as e:
        return CliResult(None, e.stdout or b'', e.stderr or b'', timeout=True)


# ---------------------------------------------------------------------------

HELD, VIOLATED, INCONCLUSIVE, SKIPPED = 'held', 'violated', 'inconclusive', 'skipped'


class Result:
    """Outcome of one case under its monitors."""

    def __init__(self):
        self.verdict = HELD
        self.labels = set()      # what this case exercised / what was observed
        self.nontrivial = False
        self.msg = ''
        self.monitor = ''
        self.detail = {}
        self.execs = 0           # executions of the real code
        self.steps = 0
        self.sites = None
        self.events = {}         # monitor event counts

    def violate(self, monitor, msg, **detail):
        if self.verdict != VIOLATED:
            self.verdict = VIOLATED
            self.monitor = monitor
            self.msg = msg
            self.detail = detail
        return self

    def inconclusive(self, msg):
        if self.verdict == HELD:
            self.verdict = INCONCLUSIVE
            self.msg = msg
        return self

    def skip(self, why):
        if self.verdict == HELD:
            self.verdict = SKIPPED
            self.msg = why
        self.labels.add('skipped:' + why)
        return self

    def ev(self, name, n=1):
        self.events[name] = self.events.get(name, 0) + n


class Ctx:
    """Per-shard execution context handed to check_case."""

    def __init__(self, prop, tier, seed, build, shard=0):
        self.prop, self.tier, self.seed, self.build, self.shard = prop, tier, seed, build, shard
        self.worker = Worker(build.worker)
        self._workers = {}
        self.casedir_root = os.path.join(build.scratch, 'cases', 's%d' % shard)
        os.makedirs(self.casedir_root, exist_ok=True)
        self._n = 0
        self.max_steps = 0
        self.sites = [0] * 6
        self.worker_deaths = 0

    def bin(self, name):
        return self.build.bin(name)

    def casedir(self):
        self._n += 1
        d = os.path.join(self.casedir_root, 'c%d' % self._n)
        if os.path.exists(d):
            shutil.rmtree(d)
        os.makedirs(d)
        return d

    def cleanup_case(self, d):
        shutil.rmtree(d, ignore_errors=True)

    def env_worker(self, key, env, race=False):
        """A worker child with a specific environment (C13) or the race build (C09)."""
        k = (key, race)
        w = self._workers.get(k)
        if w is None:
            w = Worker(self.build.worker_race if race else self.build.worker, env=env)
            self._workers[k] = w
        return w

    def drop_worker(self, key, race=False):
        w = self._workers.pop((key, race), None)
        if w:
            w.stop()

    def call(self, ops, res=None, budget=STEP_BUDGET, events=False, worker=None):
        """Execute ops in the worker.  Returns the response, or None when the child
        died / hung (recorded in res as an observation)."""
        w = worker or self.worker
        try:
            resp = w.call(ops, budget=budget, events=events)
        except WorkerDied as e:
            self.worker_deaths += 1
            if res is not None:
                res.execs += 1
                res.detail['worker_died'] = {'status': e.status, 'hang': e.hang, 'stderr_tail': e.stderr[-3000:]}
                res.labels.add('obs:worker-died')
            return None
        if res is not None and resp.get('stale'):
            res.violate('output-aliasing', 'bytes returned by %d Output call(s) changed after a later call in the same process' % resp['stale'])
        if res is not None:
            res.execs += 1
            res.steps = max(res.steps, resp['steps'])
            if resp['steps'] > self.max_steps:
                self.max_steps = resp['steps']
            for i, n in enumerate(resp['sites']):
                self.sites[i] += n
        return resp

    def close(self):
        self.worker.stop()
        for w in self._workers.values():
            w.stop()


def file_crosscheck(ctx, res, docs, want_ok, want_json, detail, rng):
    """The same stream of root documents written as one file in a random input format and style, evaluated by the real
    binary, must give what the library gave for the in-memory values (status, and bytes of the json output)."""
    from . import ser
    fmts = ['json', 'yaml', 'yaml']
    if all(ser.toml_ok(d) for d in docs):
        fmts.append('toml')
    if any(not isinstance(d, (dict, list)) for d in docs):
        fmts = ['json']
    fmt = rng.choice(fmts)
    try:
        text = ser.write(fmt, docs, rng)
        back = ser.parse(fmt, text)
    except Exception:
        return True
    from .val import veq
    if not veq(back, docs):
        res.ev('generator_rejected')
        return True
    d = ctx.casedir()
    try:
        with open(os.path.join(d, 'in.' + fmt), 'w') as f:
            f.write(text)
        r = cli([ctx.bin('bkl'), '-f', 'json', 'in.' + fmt], cwd=d)
        res.execs += 1
        res.labels.add('via:file-' + fmt)
        if crashed(r.rc, r.err):
            res.violate('crash', 'bkl binary died rc=%s %s' % (r.rc, r.err[-300:].decode('utf-8', 'replace')), file_format=fmt, text=text, **detail)
            return False
        if (r.rc == 0) != want_ok:
            res.violate('file', 'the same documents from a %s file %s but from memory %s' % (fmt, 'succeed' if r.rc == 0 else 'fail (%s)' % r.err[-200:].decode('utf-8', 'replace'),
                                                                                             'succeed' if want_ok else 'fail'), file_format=fmt, text=text, **detail)
            return False
        if want_ok and r.out != want_json:
            res.violate('file', 'the same documents from a %s file evaluate differently than from memory' % fmt, file_format=fmt, text=text,
                        from_file=r.out.decode('utf-8', 'replace'), from_memory=want_json.decode('utf-8', 'replace'), **detail)
            return False
        res.ev('file_crosschecks')
        return True
    finally:
        ctx.cleanup_case(d)


def out_bytes(r):
    """Output bytes of an output/to_writer op result (None on error)."""
    if r.get('out') is not None:
        return r['out'].encode()
    if r.get('out_b64') is not None:
        return base64.b64decode(r['out_b64'])
    return None


def case_rng(seed, prop, i):
    h = hashlib.sha256(('%s/%s/%d' % (seed, prop, i)).encode()).digest()
    return random.Random(int.from_bytes(h[:8], 'big'))


def case_hash(case):
    return int.from_bytes(hashlib.sha256(json.dumps(case, sort_keys=True, default=str).encode()).digest()[:8], 'big')


# ---------------------------------------------------------------------------
# shard execution


def _shard_main(args):
    modname, tier, seed, scratch, shard, ncases, nfixed = args
    import importlib
    mod = importlib.import_module('bv.props.' + modname)
    mod.SEED = seed
    b = Build(scratch)
    ctx = Ctx(mod.ID, tier, seed, b, shard)
    st = {'cases': 0, 'execs': 0, 'verdicts': {}, 'labels': {}, 'events': {}, 'hashes': set(), 'nontrivial_hashes': set(),
          'violations': [], 'inconclusive': [], 'samples': [], 'max_steps': 0, 'errors': []}
    fixed = mod.fixed_cases(tier) if hasattr(mod, 'fixed_cases') else []
    try:
        idx = list(range(shard, nfixed + ncases, NSHARDS))
        for i in idx:
            if i < nfixed:
                case = fixed[i]
                case.setdefault('origin', 'fixed')
            else:
                rng = case_rng(seed, mod.ID, i - nfixed)
                try:
                    case = mod.gen_case(rng, i - nfixed, tier)
                except Exception:
                    st['errors'].append({'case': {'i': i}, 'trace': 'gen_case: ' + traceback.format_exc()[-3000:]})
                    continue
                case.setdefault('origin', 'random')
            case['i'] = i
            try:
                res = mod.check_case(ctx, case)
            except Exception:
                st['errors'].append({'case': case, 'trace': traceback.format_exc()[-3000:]})
                continue
            st['cases'] += 1
            st['execs'] += res.execs
            st['verdicts'][res.verdict] = st['verdicts'].get(res.verdict, 0) + 1
            for l in res.labels:
                st['labels'][l] = st['labels'].get(l, 0) + 1
            for k, n in res.events.items():
                st['events'][k] = st['events'].get(k, 0) + n
            h = case_hash({k: v for k, v in case.items() if k not in ('i', 'origin')})
            st['hashes'].add(h)
            if res.nontrivial and res.verdict in (HELD, VIOLATED):
                st['nontrivial_hashes'].add(h)
            if res.verdict == VIOLATED:
                if len(st['violations']) < 40:
                    st['violations'].append({'case': case, 'monitor': res.monitor, 'msg': res.msg, 'detail': res.detail})
                else:
                    st['violations_more'] = st.get('violations_more', 0) + 1
            elif res.verdict == INCONCLUSIVE:
                if len(st['inconclusive']) < 10:
                    st['inconclusive'].append({'case': case, 'msg': res.msg})
            if len(st['samples']) < 2 and res.nontrivial and res.verdict == HELD:
                st['samples'].append({'case': case, 'labels': sorted(res.labels), 'observed': res.detail.get('observed')})
    finally:
        ctx.close()
    st['max_steps'] = ctx.max_steps
    st['sites'] = ctx.sites
    st['worker_deaths'] = ctx.worker_deaths
    st['hashes'] = list(st['hashes'])
    st['nontrivial_hashes'] = list(st['nontrivial_hashes'])
    shutil.rmtree(ctx.casedir_root, ignore_errors=True)
    return st


def merge_stats(parts):
    m = {'cases': 0, 'execs': 0, 'verdicts': {}, 'labels': {}, 'events': {}, 'hashes': set(), 'nontrivial_hashes': set(),
         'violations': [], 'inconclusive': [], 'samples': [], 'max_steps': 0, 'errors': [], 'sites': [0] * 6,
         'worker_deaths': 0, 'violations_more': 0}
    for st in parts:
        m['cases'] += st['cases']
        m['execs'] += st['execs']
        for key in ('verdicts', 'labels', 'events'):
            for k, n in st[key].items():
                m[key][k] = m[key].get(k, 0) + n
        m['hashes'].update(st['hashes'])
        m['nontrivial_hashes'].update(st['nontrivial_hashes'])
        m['violations'] += st['violations']
        m['violations_more'] += st.get('violations_more', 0)
        m['inconclusive'] += st['inconclusive']
        m['samples'] += st['samples']
        m['errors'] += st['errors']
        m['max_steps'] = max(m['max_steps'], st['max_steps'])
        m['sites'] = [a + b for a, b in zip(m['sites'], st['sites'])]
        m['worker_deaths'] += st['worker_deaths']
    m['violations'].sort(key=lambda v: v['case'].get('i', 0))
    return m


SITE_NAMES = ['process1', 'process2', 'process2String', 'merge', 'get', 'loadFileAndParents']


def load_known():
    p = os.path.join(VERIF, 'known_findings.json')
    try:
        return json.load(open(p))
    except FileNotFoundError:
        return {'findings': [], 'fixed': []}


def run_property(mod, tier, seed, replay=None):
    """Entry point used by ./check.  Returns the process exit status."""
    t0 = time.time()
    modname = mod.__name__.split('.')[-1]
    scratch = tempfile.mkdtemp(prefix='bklverif-%s-' % mod.ID, dir=os.environ.get('VERIF_SCRATCH', tempfile.gettempdir()))
    try:
        try:
            b = build(scratch, bins=getattr(mod, 'NEED_BINS', True), race=getattr(mod, 'NEED_RACE', False))
        except BuildError as e:
            print('ERROR build: %s' % e)
            return 2
        if replay:
            return do_replay(mod, tier, seed, b, replay)
        return do_run(mod, modname, tier, seed, b, scratch, t0)
    finally:
        shutil.rmtree(scratch, ignore_errors=True)


def do_replay(mod, tier, seed, b, path):
    rec = json.load(open(path))
    ctx = Ctx(mod.ID, tier, seed, b, 0)
    try:
        res = mod.check_case(ctx, rec['case'])
    finally:
        ctx.close()
    print('REPLAY %s verdict=%s monitor=%s' % (path, res.verdict, res.monitor))
    if res.verdict == VIOLATED:
        print(res.msg)
        print(json.dumps(res.detail, indent=1, default=str)[:6000])
        print('VIOLATION property=%s replay=%s' % (mod.ID, path))
        return 1
    return 0


def minimise(mod, ctx, v, limit=150):
    """Greedy shrinking: keep a smaller case while the same monitor still fires."""
    if not hasattr(mod, 'shrink'):
        return v
    cur = v
    tried = 0
    progress = True
    while progress and tried < limit:
        progress = False
        for cand in mod.shrink(cur['case']):
            tried += 1
            if tried > limit:
                break
            try:
                res = mod.check_case(ctx, cand)
            except Exception:
                continue
            if res.verdict == VIOLATED and res.monitor == cur['monitor']:
                cand['shrunk_from'] = cur['case'].get('shrunk_from', cur['case'].get('i'))
                cur = {'case': cand, 'monitor': res.monitor, 'msg': res.msg, 'detail': res.detail}
                progress = True
                break
    return cur


def do_run(mod, modname, tier, seed, b, scratch, t0):
    import glob
    for old in glob.glob(os.path.join(REPLAYS, '%s-%d-*.json' % (mod.ID, seed))):
        os.unlink(old)
    sizes = mod.SIZES[tier]
    ncases = sizes if isinstance(sizes, int) else sizes['cases']
    ncases = int(os.environ.get('VERIF_CASES', ncases))
    nfixed = len(mod.fixed_cases(tier)) if hasattr(mod, 'fixed_cases') else 0
    procs = min(NSHARDS, max(1, (os.cpu_count() or 4)))
    args = [(modname, tier, seed, scratch, s, ncases, nfixed) for s in range(NSHARDS)]
    with multiprocessing.get_context('fork').Pool(procs) as pool:
        parts = pool.map(_shard_main, args, chunksize=1)
    m = merge_stats(parts)

    known = load_known()
    findings = [f for f in known.get('findings', []) if f['property'] == mod.ID]
    ctx = Ctx(mod.ID, tier, seed, b, 99)
    lines = []
    status = 0
    try:
        # regression inputs of recorded findings: are they still failing the recorded way?
        known_seen = []
        for f in findings:
            res = mod.check_case(ctx, dict(f['case']))
            m['execs'] += res.execs
            if res.verdict == VIOLATED and (not f.get('monitor') or f['monitor'] == res.monitor):
                lines.append('KNOWN-FINDING: property=%s %s' % (mod.ID, f['what']))
                known_seen.append(f['id'])
            else:
                lines.append('NOTE: recorded finding %s no longer reproduces (verdict=%s)' % (f['id'], res.verdict))
        # violations: minimise, attribute, report
        new = []
        attributed = {}
        seen_msgs = set()
        for v in m['violations']:
            key = (v['monitor'], v['msg'][:80])
            if len(new) >= 5:
                break
            if key in seen_msgs and not (hasattr(mod, 'classify') and findings):
                continue
            v2 = minimise(mod, ctx, v) if len(seen_msgs) < 6 else v
            fid = mod.classify(v2['case'], v2, findings) if hasattr(mod, 'classify') and findings else None
            if fid:
                attributed[fid] = attributed.get(fid, 0) + 1
                continue
            if key in seen_msgs:
                continue
            seen_msgs.add(key)
            new.append(v2)
        os.makedirs(REPLAYS, exist_ok=True)
        for n, v in enumerate(new):
            path = os.path.join(REPLAYS, '%s-%d-%d.json' % (mod.ID, seed, n))
            json.dump({'property': mod.ID, 'seed': seed, 'tier': tier, 'monitor': v['monitor'], 'msg': v['msg'],
                       'detail': v['detail'], 'case': v['case']}, open(path, 'w'), indent=1, default=str)
            lines.append('VIOLATION property=%s replay=%s' % (mod.ID, path))
            lines.append('  monitor=%s: %s' % (v['monitor'], v['msg'][:400]))
            status = 1
        for fid, n in attributed.items():
            lines.append('KNOWN-FINDING: property=%s %s (matched %d generated cases)' % (mod.ID, fid, n))
    finally:
        ctx.close()
        shutil.rmtree(ctx.casedir_root, ignore_errors=True)

    if m['errors']:
        # an exception in the monitor code is a defect of the harness, not an observation about bkl: the cases are
        # inconclusive; only when they are many does the run as a whole count as an infrastructure error
        many = len(m['errors']) > max(3, 0.02 * max(1, m['cases']))
        lines.append('%s: %d case(s) raised in the monitor code and were not judged; first:\n%s' % (
            'ERROR harness' if many else 'INCONCLUSIVE', len(m['errors']), m['errors'][0]['trace']))
        if many and status == 0:
            status = 2
    verdict_total = sum(m['verdicts'].values())
    nontriv = len(m['nontrivial_hashes'])
    inconclusive_run = None
    if hasattr(mod, 'finish'):
        inconclusive_run = mod.finish(m)
    missing = [e for e in getattr(mod, 'REQUIRED_EVENTS', []) if not m['events'].get(e)]
    if missing and status == 0 and not inconclusive_run:
        inconclusive_run = 'monitors observed nothing of kind(s): %s' % ', '.join(missing)
    if nontriv < 2 and status == 0:
        inconclusive_run = 'fewer than 2 distinct non-trivial cases observed'
    if inconclusive_run:
        lines.append('INCONCLUSIVE: %s' % inconclusive_run)

    wall = time.time() - t0
    ev = {
        'property_id': mod.ID, 'tier': tier, 'seed': seed, 'level': 'exploration',
        'coverage': {
            'evaluations': m['execs'],
            'distinct_nontrivial': nontriv,
            'rule': mod.RULE,
            'samples': m['samples'][:4],
            'cases': m['cases'], 'distinct_cases': len(m['hashes']),
            'verdicts': m['verdicts'],
            'labels': dict(sorted(m['labels'].items())),
            'monitor_events': dict(sorted(m['events'].items())),
            'hook_steps_by_site': dict(zip(SITE_NAMES, m['sites'])),
            'max_steps_one_evaluation': m['max_steps'],
            'step_budget': STEP_BUDGET,
            'worker_deaths': m['worker_deaths'],
            'inconclusive_cases': m['inconclusive'][:5],
            'monitor_exceptions': len(m['errors']),
            'known_findings_seen': [l for l in lines if l.startswith('KNOWN-FINDING')],
            'run_inconclusive': inconclusive_run,
            'exhaustive': bool(getattr(mod, 'EXHAUSTIVE', {}).get(tier, False)),
            'build_s': round(b.build_s, 1),
        },
        'assumptions': getattr(mod, 'ASSUMPTIONS', []),
        'wall_s': round(wall, 1),
        'violations': sum(1 for l in lines if l.startswith('VIOLATION')) + 0,
    }
    if hasattr(mod, 'extra_coverage'):
        ev['coverage'].update(mod.extra_coverage(m))
    os.makedirs(EVIDENCE, exist_ok=True)
    json.dump(ev, open(os.path.join(EVIDENCE, mod.ID + '.json'), 'w'), indent=1, default=str)

    print('%s tier=%s seed=%d cases=%d distinct=%d nontrivial=%d executions=%d verdicts=%s max_steps=%d wall=%.1fs' % (
        mod.ID, tier, seed, m['cases'], len(m['hashes']), nontriv, m['execs'], m['verdicts'], m['max_steps'], wall))
    top = sorted(m['labels'].items(), key=lambda kv: -kv[1])[:14]
    print('  labels: ' + ', '.join('%s=%d' % kv for kv in top))
    if m['events']:
        print('  monitor events: ' + ', '.join('%s=%d' % kv for kv in sorted(m['events'].items())))
    for l in lines:
        print(l)
    sys.stdout.flush()
    return status
