"""Seeded generators: small collision-rich trees and edit-based child layers."""
from .val import clone, kind

KEYS = ['a', 'b', 'c', 'd', 'e']
INTS = [0, 1, 2, 7]
FLOATS = [1.5, 0.1, 2.0]
STRS = ['x', 'y', '', 'zz']
SCALARS = INTS + FLOATS + STRS + [True, False]


def scalar(rng, nulls=False, pool=None):
    pool = pool or SCALARS
    if nulls and rng.random() < 0.08:
        return None
    return rng.choice(pool)


VOCAB_KEYS = ['name', 'id', 'default', 'type', 'kind', 'value', 'key', 'items', 'enabled', 'path', 'names', 'nam', 'ID', 'spec', 'metadata']
VOCAB_VALUES = ['name', 'id', 'default', 'value', 'key', 'true', 'false', 'null', 'svc', 'svc-a', 'svc-ab', 'e\u0301', '\U0001F600', 'Zo\u00eb', 'x' * 70, 0, -1, 1, 1000, 2**31, 2**53, 2**63 - 1, 0.1, 0.30000000000000004,
                True, False, 'a', 'ab', 'abc', '', ' ', 'path/to/x', 'http://h:80/p?q=1', '100%', 'a.b', 'a,b']
BIGKEYS = ['k%02d' % i for i in range(24)] + ['ключ', 'a-very-long-key-name-' + 'x' * 40, 'Key', 'KEY', 'z9', '_', 'k.dot', 'UPPER_lower-1']


def tree(rng, depth=3, fan=3, nulls=False, root=None, pool=None, keys=None, _top=True):
    """Random JSON-like tree. root in (None,'map','list').  About one call in 25 is scaled up (deeper, or wider with
    more distinct keys, or with a long list) so that size-dependent behaviour (slice growth, deep recursion, many keys)
    is reached; the size is capped at about 400 nodes."""
    keys = keys or KEYS
    budget = [400]
    if _top and pool is None and rng.random() < 0.08:
        # ordinary configuration vocabulary: common words as keys and as values, values equal to keys or to other values,
        # prefixes of one another, strings spelling other types, unicode (combining, non-BMP), numeric edges
        keys = VOCAB_KEYS
        pool = VOCAB_VALUES
        if rng.random() < 0.5:
            nulls = nulls
    if _top and rng.random() < 0.04:
        mode = rng.choice(['deep', 'wide', 'longlist'])
        if mode == 'deep':
            depth, fan = depth + rng.choice([2, 3, 4]), 2
        elif mode == 'wide':
            depth, fan = min(depth, 2), fan * rng.choice([3, 5])
            keys = list(keys) + BIGKEYS
        t = _tree(rng, depth, fan, nulls, root or ('map' if mode == 'longlist' else None), pool, keys, budget)
        if mode == 'longlist' and isinstance(t, dict):
            t[rng.choice(keys)] = [scalar(rng, False, pool) for _ in range(rng.randint(17, 40))]
        return t
    return _tree(rng, depth, fan, nulls, root, pool, keys, budget)


def _tree(rng, depth, fan, nulls, root, pool, keys, budget):
    budget[0] -= 1
    if budget[0] <= 0:
        return scalar(rng, nulls, pool) if root is None else ({} if root == 'map' else [])
    r = rng.random()
    if root == 'map' or (root is None and depth > 0 and r < 0.45):
        n = rng.randint(0 if root is None else 1, fan)
        ks = rng.sample(keys, min(n, len(keys)))
        return {k: _tree(rng, depth - 1, fan, nulls, None, pool, keys, budget) for k in ks}
    if root == 'list' or (root is None and depth > 0 and r < 0.7):
        n = rng.randint(0 if root is None else 1, fan)
        return [_tree(rng, depth - 1, fan, nulls, None, pool, keys, budget) for _ in range(n)]
    return scalar(rng, nulls, pool)


def other_scalar(rng, v, pool=None):
    pool = pool or SCALARS
    for _ in range(20):
        s = rng.choice(pool)
        if kind(s) != kind(v) or s != v:
            return s
    return 'other'


def sub_pattern(rng, v, labels):
    """A pattern that (partially) matches v."""
    if isinstance(v, dict) and v:
        ks = list(v.keys())
        n = rng.randint(1, len(ks))
        if n < len(ks):
            labels.add('pat:partial-map')
        out = {k: (sub_pattern(rng, v[k], labels) if rng.random() < 0.4 else clone(v[k])) for k in rng.sample(ks, n)}
        if rng.random() < 0.08:
            # an inverted sub-pattern on a key the entry does not have (a missing key is not a map: the inversion holds)
            out[rng.choice(['nokey1', 'nokey2'])] = {'$invert': True, 'zz': 1}
            labels.add('pat:nested-invert-missing-key')
        return out
    if isinstance(v, list) and v:
        n = rng.randint(1, len(v))
        if n < len(v):
            labels.add('pat:partial-list')
        return [clone(x) for x in rng.sample(v, n)]
    return clone(v)


def child_of(rng, node, labels, depth=0, hostile=0.15):
    """Derive a child-layer fragment for `node` by labelled edits, so that the
    child is guaranteed to interact with its parent.  `hostile` is the chance
    of an edit that the rules reject or that leaves a directive unapplied."""
    if isinstance(node, dict):
        return child_of_map(rng, node, labels, depth, hostile)
    if isinstance(node, list):
        return child_of_list(rng, node, labels, depth, hostile)
    return child_of_scalar(rng, node, labels, depth, hostile)


def child_of_scalar(rng, node, labels, depth, hostile):
    r = rng.random()
    if r < hostile:
        labels.add('edit:same-scalar')
        return node
    if r < 0.75 or depth > 2:
        labels.add('edit:scalar-override')
        return other_scalar(rng, node)
    if r < 0.88:
        labels.add('edit:scalar-to-map')
        return tree(rng, 1, 2, root='map')
    labels.add('edit:scalar-to-list')
    return tree(rng, 1, 2, root='list')


def child_of_map(rng, node, labels, depth, hostile):
    r = rng.random()
    if r < 0.06:
        labels.add('edit:map-replace')
        t = tree(rng, 2, 3, root='map')
        t['$replace'] = True
        return t
    if r < 0.06 + hostile * 0.5:
        if rng.random() < 0.5:
            labels.add('edit:map-to-scalar' + ('' if node else ':empty'))
            return scalar(rng)
        labels.add('edit:map-to-list' + ('' if node else ':empty'))
        return tree(rng, 1, 2, root='list')
    out = {}
    ks = list(node.keys())
    rng.shuffle(ks)
    ntouch = rng.randint(1, max(1, min(3, len(ks)))) if ks else 0
    for k in ks[:ntouch]:
        v = node[k]
        r = rng.random()
        if r < 0.15:
            labels.add('edit:map-delete')
            out[k] = '$delete'
        elif r < 0.19 and hostile > 0:
            labels.add('edit:null-child')
            out[k] = None
        elif v is None:
            labels.add('edit:over-null')
            out[k] = tree(rng, 1, 2)
        else:
            out[k] = child_of(rng, v, labels, depth + 1, hostile)
    free = [k for k in KEYS if k not in node]
    if free and rng.random() < 0.5:
        k = rng.choice(free)
        labels.add('edit:add-key')
        out[k] = tree(rng, 2, 2)
        if rng.random() < hostile:
            labels.add('edit:misplaced-directive')
            out[k] = rng.choice([{'$replace': True, 'q': 1}, [{'$delete': 1}], [{'$match': {}, 'q': 1}],
                                 {'$match': {'a': 1}}, '$required', ['$required'], {'$invert': True}, [{'$replace': True}, 1]])
    if free and rng.random() < hostile * 0.6:
        labels.add('edit:delete-absent')
        out[rng.choice(free)] = '$delete'
    if depth > 0 and rng.random() < hostile * 0.3:
        labels.add('edit:misplaced-directive')
        out[rng.choice(['$match', '$invert', '$delete'])] = rng.choice([{}, True, 'x', {'a': 1}])
    if not out and rng.random() < 0.7 and free:
        labels.add('edit:add-key')
        out[rng.choice(free)] = scalar(rng)
    return out


def child_of_list(rng, node, labels, depth, hostile):
    r = rng.random()
    if r < 0.07:
        labels.add('edit:list-replace')
        out = tree(rng, 1, 3, root='list')
        out.insert(rng.randint(0, len(out)), {'$replace': True})
        if rng.random() < hostile:
            labels.add('edit:extra-keys')
            out[rng.randrange(len(out))] = {'$replace': True, 'q': 1}
        return out
    if r < 0.07 + hostile * 0.5:
        if rng.random() < 0.5:
            labels.add('edit:list-to-scalar')
            return scalar(rng)
        labels.add('edit:list-to-map')
        return tree(rng, 1, 2, root='map')
    out = []
    nops = rng.randint(1, 3)
    # directive entries first, appends afterwards: keeps the child from hitting its own entries
    for _ in range(nops):
        r = rng.random()
        if r < 0.3 and node:
            target = rng.choice(node)
            pat = sub_pattern(rng, target, labels)
            if rng.random() < hostile:
                labels.add('edit:list-delete-miss')
                pat = {'nope': 1} if rng.random() < 0.5 else 'nope'
            else:
                labels.add('edit:list-delete')
            if rng.random() < 0.12:
                labels.add('pat:invert')
                if isinstance(pat, dict):
                    pat = dict(pat)
                    pat['$invert'] = True
            e = {'$delete': pat}
            if rng.random() < hostile * 0.5:
                labels.add('edit:extra-keys')
                e['q'] = 1
            out.append(e)
        elif r < 0.6 and node:
            target = rng.choice(node)
            pat = sub_pattern(rng, target, labels)
            if rng.random() < hostile:
                labels.add('edit:list-match-miss')
                pat = {'nope': 1} if rng.random() < 0.5 else 'nope'
            if rng.random() < 0.12 and isinstance(pat, dict):
                labels.add('pat:invert')
                pat = dict(pat)
                pat['$invert'] = True
            if isinstance(target, dict) and rng.random() < 0.65:
                labels.add('edit:list-match-body')
                body = child_of_map(rng, target, labels, depth + 1, hostile)
                if not isinstance(body, dict) or '$replace' in body:
                    body = {'n': 1}
                e = dict(body)
                e['$match'] = pat
            else:
                labels.add('edit:list-match-value')
                e = {'$match': pat, '$value': child_of(rng, target, labels, depth + 1, hostile)}
                if rng.random() < hostile * 0.5:
                    labels.add('edit:extra-keys')
                    e['q'] = 1
            out.append(e)
    tail = []
    for _ in range(rng.randint(0, 2)):
        labels.add('edit:list-append')
        tail.append(tree(rng, 1, 2))
    if not out and not tail:
        labels.add('edit:list-append')
        tail.append(scalar(rng))
    return out + tail


def chain(rng, nlayers, labels, root='map', nulls=True, hostile=0.15, fold=None):
    """A base tree plus nlayers-1 children, each derived from the model's merged
    result so far (fold(prev, child) -> merged or None when rejected)."""
    base = tree(rng, 3, 3, nulls=nulls, root=root)
    layers = [base]
    cur = base
    for _ in range(nlayers - 1):
        ch = child_of(rng, cur, labels, 0, hostile)
        layers.append(ch)
        nxt = fold(cur, ch) if fold else None
        if nxt is None:
            break
        cur = nxt
    return layers


# ---------------------------------------------------------------------------
# documents that use the evaluation directives (C09, C19, C08 seeds)

FEATURES = ['merge-map', 'merge-map-deep', 'merge-str', 'replace-map', 'replace-str', 'merge-list', 'merge-listpath', 'cross-merge', 'cross-replace',
            'interp', 'env', 'encode', 'encode-value', 'decode', 'repeat-doc', 'repeat-doc-named', 'repeat-doc-count-ref', 'repeat-list', 'repeat-map', 'output-true',
            'output-false', 'template-doc', 'nested-merge-in-target', 'list-entry-merge-map', 'list-in-list-merge-map', 'merge-host-empty-containers',
            'null-values', 'cross-merge-whole-target', 'cross-list-merge', 'cross-list-replace']


def evaldoc(rng, idx, ndocs, labels, nfeat=None):
    """A map-rooted document exercising a random subset of the evaluation directives."""
    d = {'name': 'd%d' % idx, 't': {'x': rng.choice([1, 2, 's']), 'y': [1, 2], 'z': {'w': True, 'v': rng.choice([1.5, 'q'])}}}
    feats = rng.sample(FEATURES, nfeat or rng.randint(1, 5))
    if rng.random() < 0.4:
        # the shared target holds a list whose entries carry references of their own (resolved wherever the target is pulled in)
        d['t']['lr'] = [{'name': 'web', '$merge': 't.z'}, '$merge:t.x', {'plain': 1}]
        labels.add('feat:list-of-references-in-target')
    other = 'd%d' % rng.choice([j for j in range(ndocs) if j != idx]) if ndocs > 1 else None
    for f in feats:
        labels.add('feat:' + f)
        if f == 'merge-map':
            d['h1'] = {'$merge': 't', 'own': 5}
        elif f == 'merge-map-deep':
            d['h2'] = {'$merge': 't.z', 'w2': 1}
        elif f == 'merge-str':
            d['h3'] = '$merge:t.x'
        elif f == 'replace-map':
            d['h4'] = {'$replace': 't.y'}
        elif f == 'replace-str':
            d['h5'] = '$replace:t.z'
        elif f == 'merge-list':
            d['h6'] = [0, {'$merge': 't.y'}]
        elif f == 'merge-listpath':
            d['h7'] = {'$merge': ['t', 'z'], 'k': 1}
        elif f == 'cross-merge' and other:
            d['h8'] = {'$merge': {'$match': {'name': other}, '$path': 't.z'}, 'mine': 1}
        elif f == 'cross-replace' and other:
            d['h9'] = {'$replace': [{'name': other}, 't', 'y']}
        elif f == 'cross-merge-whole-target' and other:
            d['h14'] = {'$merge': {'$match': {'name': other}, '$path': 't'}, 'z': {'mine': 1}, 'lr': [{'name': 'sidecar'}]}
        elif f == 'cross-list-merge' and other:
            d['h15'] = [{'$merge': [{'name': other}, 't', 'lr']}, {'name': 'own'}] if rng.random() < 0.5 else [{'$merge': [{'name': other}, 't', 'y']}, 9]
        elif f == 'cross-list-replace' and other:
            d['h16'] = [{'$replace': rng.choice([{'$match': {'name': other}, '$path': 't.lr'}, [{'name': other}, 't', 'lr'], [{'name': other}, 't', 'y']])}]
        elif f == 'interp':
            d['i1'] = '$"v={t.x}-{name}"'
        elif f == 'env':
            d['e1'] = '$env:HOME'
        elif f == 'encode':
            d['c1'] = {'$encode': rng.choice(['json', 'base64', 'yaml', 'toml']), 'k': 1, 'l': [1, 2]}
        elif f == 'encode-value':
            d['c2'] = {'$encode': 'join:,', '$value': [1, 2, 3]}
        elif f == 'decode':
            d['c3'] = {'$decode': 'json', '$value': '{"a":1,"b":[1.5,"x"]}'}
        elif f == 'repeat-doc' and '$repeat' not in d:
            d['$repeat'] = rng.choice([2, 3])
            d['r'] = '$"{$repeat}"'
        elif f == 'repeat-doc-named' and '$repeat' not in d:
            d['$repeat'] = {'a': 2, 'b': 2}
            d['r'] = '$"{$repeat:a}-{$repeat:b}"'
        elif f == 'repeat-doc-count-ref' and '$repeat' not in d:
            d['$repeat'] = {'a': 2, 'b': 1}
            d['rc'] = '$"of {$repeat.a}x{$repeat.b}"'
        elif f == 'repeat-list':
            d['rl'] = [{'$repeat': 2, 'idx': '$repeat'}, 'tail']
        elif f == 'repeat-map':
            d['rm'] = {'$"k{$repeat}"': {'$repeat': 2, 'v': '$repeat'}}
        elif f == 'output-true':
            d['o1'] = {'$output': True, 'p': 1, 'q': '$merge:t.x'}
        elif f == 'output-false':
            d['o2'] = {'$output': False, 'hid': 1}
        elif f == 'template-doc' and ndocs > 1 and idx > 0:
            d['$output'] = False
        elif f == 'nested-merge-in-target':
            d['t']['n'] = {'$merge': 't.z', 'extra': 1}
            d['h10'] = {'$replace': 't.n'}
        elif f == 'list-entry-merge-map':
            d['h11'] = [{'$merge': 't.z', 'sib': 1}, {'plain': 1}]
        elif f == 'list-in-list-merge-map':
            d['h12'] = [[{'$merge': 't.z', 'sib': 1}], [[{'deep': {'$merge': 't', 'k': 1}}]], 'x']
        elif f == 'merge-host-empty-containers':
            d['h13'] = {'$merge': 't', 'z': {}, 'y': [], 'own': {}}
        elif f == 'null-values':
            d['nul'] = {'a': None, 'b': [None, 1], 'c': {'$merge': 't.z', 'n': None}}
    return d
