"""Generic tree shrinking used to minimise witnesses."""


def shrink_tree(t, depth=0):
    """Yield smaller variants of t: drop one key / entry, replace a subtree by a leaf, recurse."""
    if isinstance(t, dict):
        for k in list(t.keys()):
            c = dict(t)
            del c[k]
            yield c
        if depth < 4:
            for k, v in t.items():
                for s in shrink_tree(v, depth + 1):
                    c = dict(t)
                    c[k] = s
                    yield c
    elif isinstance(t, list):
        for i in range(len(t)):
            yield t[:i] + t[i + 1:]
        if depth < 4:
            for i, v in enumerate(t):
                for s in shrink_tree(v, depth + 1):
                    yield t[:i] + [s] + t[i + 1:]
